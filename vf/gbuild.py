"""Build real Graph objects from plain-data specs (so every case is replayable from JSON).

spec = {"vertices": [{"id": int, "kind": "SE2", "pose": [...], "fixed": bool}, ...]   (list order = graph order)
        "edges":    [{"type": "odo"|"lm"|"prior"|"tern"|"numprior"|"numtern"|"numodo"|"numlm", "ids": [...], "z": [...], "off": [...], "om": [[...]]}, ...]}
"""
import numpy as np

from . import impl as I
from . import custom_edges as CE


def kind_by_id(spec):
    return {v["id"]: v["kind"] for v in spec["vertices"]}


def build(spec, with_graph=True, stale_prebind=True):
    # fixed flags arrive as truthy non-bool values (numpy.bool_ from a mask, the integer 1): legal, and often what callers have
    verts = [I.Vertex(v["id"], I.mk_pose(v["kind"], v["pose"]), (np.bool_(True) if k % 2 == 0 else 1) if v.get("fixed", False) else False) for k, v in enumerate(spec["vertices"])]
    kb = kind_by_id(spec)
    edges = []
    for ek, e in enumerate(spec["edges"]):
        t = e["type"]
        om = np.array(e["om"], dtype=float)
        # same numbers, different memory layouts (callers hand over whatever they have): Fortran order, a non-contiguous view
        if ek % 3 == 1:
            om = np.asfortranarray(om)
        elif ek % 3 == 2:
            big = np.zeros((2 * om.shape[0], 2 * om.shape[1]))
            big[::2, ::2] = om
            om = big[::2, ::2]
        k0 = kb[e["ids"][0]]
        if t in ("odo", "numodo"):
            ed = I.EdgeOdometry(list(e["ids"]), om, I.mk_pose(k0, e["z"]))
            if t == "numodo":
                ed = _numeric_twin(ed)
        elif t in ("lm", "numlm"):
            pk = kb[e["ids"][1]]
            ed = I.EdgeLandmark(list(e["ids"]), om, I.mk_pose(pk, e["z"]), offset=I.mk_pose(k0, e["off"]), offset_id=e.get("off_id"))
            if t == "numlm":
                ed = _numeric_twin(ed)
        elif t == "prior":
            ed = CE.PriorEdge(list(e["ids"]), om, np.array(e["z"], dtype=float))
        elif t == "numprior":
            ed = CE.NumPriorEdge(list(e["ids"]), om, np.array(e["z"], dtype=float))
        elif t == "tern":
            ed = CE.TernaryEdge(list(e["ids"]), om, np.array(e["z"], dtype=float))
        elif t == "numtern":
            ed = CE.NumTernaryEdge(list(e["ids"]), om, np.array(e["z"], dtype=float))
        else:
            raise ValueError(t)
        if spec.get("repeat_objects") and ek > 0 and spec["edges"][ek - 1] == e:
            ed = edges[-1]  # a parallel edge expressed by listing the SAME edge object twice
        edges.append(ed)
    if stale_prebind:
        # "start from non-initial states too": every edge object arrives already bound to OTHER vertex objects with the same
        # ids and different poses (as after use in an earlier graph); constructing the graph must re-bind it
        for ed in edges:
            ed.vertices = [_stale_vertex(i, kb[i], spec) for i in ed.vertex_ids]
    for what, vi, field, ei in spec.get("share", []):
        # object reuse: the vertex's pose object IS the edge's measurement / offset object
        verts[vi].pose = edges[ei].estimate if field == "estimate" else edges[ei].offset
    g = I.Graph(edges, verts) if with_graph else None
    return g, verts, edges


def _stale_vertex(vid, kind, spec):
    for v in spec["vertices"]:
        if v["id"] == vid:
            d = {"R2": 2, "R3": 3, "SE2": 2, "SE3": 3}[kind]
            c = [x * 1.5 + 1.0 + 0.37 * (hash(vid) % 5) for x in v["pose"][:d]] + list(v["pose"][d:])
            return I.Vertex(vid, I.mk_pose(kind, c))
    raise KeyError(vid)


class _NumOdo(I.EdgeOdometry):
    calc_jacobians = I.BaseEdge.calc_jacobians


class _NumLm(I.EdgeLandmark):
    calc_jacobians = I.BaseEdge.calc_jacobians


def _numeric_twin(ed):
    if isinstance(ed, I.EdgeLandmark):
        return _NumLm(ed.vertex_ids, ed.information, ed.estimate, offset=ed.offset, offset_id=ed.offset_id)
    return _NumOdo(ed.vertex_ids, ed.information, ed.estimate)


def snapshot(verts):
    """[(id, kind, comps)] in list order, full precision."""
    return [[v.id, I.kind_of(v.pose), I.comps(v.pose)] for v in verts]


def optimize(g, **kw):
    import warnings

    kw.setdefault("verbose", False)
    with warnings.catch_warnings():
        warnings.simplefilter("ignore")
        with np.errstate(all="ignore"):
            if all(k in kw for k in ("tol", "max_iter", "fix_first_pose", "verbose")) and len(kw) == 4:
                # the documented positional order: optimize(tol, max_iter, fix_first_pose, verbose)
                return g.optimize(kw["tol"], kw["max_iter"], kw["fix_first_pose"], kw["verbose"])
            return g.optimize(**kw)
