"""Harness-defined custom edge types (subclasses of the library's BaseEdge), used as 'programs' in C03/C06/C12/C15/C16."""
import numpy as np

from graphslam.edge.base_edge import BaseEdge


class _Custom(BaseEdge):
    def is_valid(self):
        return self._is_valid()


class PriorEdge(_Custom):
    """Unary edge: e = compact(p) - target, analytic Jacobian = first COMPACT rows of d(p [+] delta)/d delta."""

    def calc_error(self):
        return self.vertices[0].pose.to_compact() - self.estimate

    def calc_jacobians(self):
        p = self.vertices[0].pose
        return [np.asarray(p.jacobian_boxplus())[: p.COMPACT_DIMENSIONALITY]]


class TernaryEdge(_Custom):
    """3-vertex edge over mixed pose types: e = xy(p_a) + xy(p_b) - 2 xy(p_c) - estimate (first two coordinates)."""

    def calc_error(self):
        a, b, c = (v.pose.to_compact()[:2] for v in self.vertices)
        return a + b - 2.0 * c - self.estimate

    def calc_jacobians(self):
        out = []
        for v, s in zip(self.vertices, (1.0, 1.0, -2.0)):
            out.append(s * np.asarray(v.pose.jacobian_boxplus())[:2])
        return out


class NumPriorEdge(PriorEdge):
    """same error as PriorEdge but relies on the library's numerical Jacobians."""

    calc_jacobians = BaseEdge.calc_jacobians


class NumTernaryEdge(TernaryEdge):
    calc_jacobians = BaseEdge.calc_jacobians
