"""Independent first-order optimality measure for C05/C16: Newton decrement lambda^2 = b^T H^-1 b of a graph state,
with residuals from the reference measurement model and Jacobians from 5-point differences of that REFERENCE model
through the REFERENCE boxplus (nothing from the library)."""
import numpy as np

from . import edges as R
from . import geom as G

H_FD = 1e-4


def _boxplus(kind, c, d):
    return G.compose(kind, c, G.exp_compact(kind, d))


def edge_error(e, kinds, state):
    t = e["type"].replace("num", "")
    if t == "odo":
        a, b = e["ids"]
        k = kinds[a]
        err = R.odometry_error(k, state[a], state[b], e["z"])
        if k == "SE3" and R.odometry_error_w(state[a], state[b], e["z"]) < 0:
            err = R.flip_rot(err)  # q ~ -q: representative with non-negative scalar part (continuous near the optimum)
        return err
    if t == "lm":
        a, b = e["ids"]
        return R.landmark_error(kinds[a], state[a], e["off"], state[b], e["z"])
    if t == "prior":
        (a,) = e["ids"]
        return [x - y for x, y in zip(G.compact(kinds[a], state[a]), e["z"])]
    if t == "tern":
        a, b, c = e["ids"]
        return [state[a][k] + state[b][k] - 2.0 * state[c][k] - e["z"][k] for k in range(2)]
    raise ValueError(t)


def newton_decrement(spec, state, fixed_ids):
    """state: {id: comps}.  Returns (lambda2, chi2, cond)."""
    kinds = {v["id"]: v["kind"] for v in spec["vertices"]}
    free = [v["id"] for v in spec["vertices"] if v["id"] not in fixed_ids]
    off = {}
    n = 0
    for i in free:
        off[i] = n
        n += G.COMPACT[kinds[i]]
    b = np.zeros(n)
    Hm = np.zeros((n, n))
    chi2 = 0.0
    for e in spec["edges"]:
        om = np.array(e["om"], dtype=float)
        e0 = np.array(edge_error(e, kinds, state), dtype=float)
        chi2 += float(e0.dot(om).dot(e0))
        Js = {}
        for vid in e["ids"]:
            if vid in fixed_ids or vid in Js:
                continue
            c = G.COMPACT[kinds[vid]]
            J = np.zeros((len(e0), c))
            base = state[vid]
            for d in range(c):
                vals = []
                for s in (2 * H_FD, H_FD, -H_FD, -2 * H_FD):
                    delta = [0.0] * c
                    delta[d] = s
                    st = dict(state)
                    st[vid] = _boxplus(kinds[vid], base, delta)
                    ev = np.array(edge_error(e, kinds, st), dtype=float)
                    if kinds[vid] == "SE2" or (e["type"].endswith("odo") and kinds[e["ids"][0]] == "SE2"):
                        if len(ev) == 3:
                            ev[2] -= 2 * np.pi * round((ev[2] - e0[2]) / (2 * np.pi))
                    vals.append(ev)
                J[:, d] = (-vals[0] + 8 * vals[1] - 8 * vals[2] + vals[3]) / (12 * H_FD)
            Js[vid] = J
        for va, Ja in Js.items():
            oa = off[va]
            b[oa : oa + Ja.shape[1]] += Ja.T.dot(om).dot(e0)
            for vb, Jb in Js.items():
                ob = off[vb]
                Hm[oa : oa + Ja.shape[1], ob : ob + Jb.shape[1]] += Ja.T.dot(om).dot(Jb)
    if n == 0:
        return 0.0, chi2, 1.0
    cond = float(np.linalg.cond(Hm))
    sol = np.linalg.solve(Hm, b)
    return float(b.dot(sol)), chi2, cond
