"""Reference reader for the .g2o vocabulary named in C14 (tokenizer + per-tag field tables), written from the
format documentation; shares nothing with the library's parsers.

parse(text, custom_tags) -> dict(vertices=[...], edges=[...], params={...}, unsupported=[line numbers], blank=n)
  vertex : {"id": int, "kind": K, "pose": [floats as on the line]}
  edge   : {"type": "odo"|"lm"|custom tag, "ids": [...], "kind": K, "est": [...], "om": full symmetric matrix, "off": [...], "off_id": int}
  params : {("PARAMS_SE3OFFSET", id): [floats]}
"""

VERTEX_TAGS = {"VERTEX_XY": ("R2", 2), "VERTEX_TRACKXYZ": ("R3", 3), "VERTEX_SE2": ("SE2", 3), "VERTEX_SE3:QUAT": ("SE3", 7)}
EDGE_TAGS = {
    # tag: (type, pose kind of first vertex, estimate kind, #ids, has param id, estimate length, information dimension)
    "EDGE_SE2": ("odo", "SE2", "SE2", 2, False, 3, 3),
    "EDGE_SE3:QUAT": ("odo", "SE3", "SE3", 2, False, 7, 6),
    "EDGE_SE2_XY": ("lm", "SE2", "R2", 2, False, 2, 2),
    "EDGE_SE3_TRACKXYZ": ("lm", "SE3", "R3", 2, True, 3, 3),
}
PARAM_TAGS = {"PARAMS_SE2OFFSET": ("SE2", 3), "PARAMS_SE3OFFSET": ("SE3", 7)}


def sym_from_upper(vals, n):
    """row-major upper triangle -> full symmetric matrix."""
    M = [[0.0] * n for _ in range(n)]
    k = 0
    for i in range(n):
        for j in range(i, n):
            M[i][j] = vals[k]
            M[j][i] = vals[k]
            k += 1
    return M


def upper_from_sym(M):
    n = len(M)
    return [M[i][j] for i in range(n) for j in range(i, n)]


def parse(text, custom_tags=None):
    """custom_tags: {tag: (n_ids, est_len, info_dim)}"""
    custom_tags = custom_tags or {}
    out = {"vertices": [], "edges": [], "params": {}, "unsupported": [], "blank": 0, "order": []}
    for ln, raw in enumerate(text.splitlines()):
        if not raw.strip():
            out["blank"] += 1
            continue
        toks = raw.split()
        tag = toks[0]
        # the vocabulary requires the tag at the start of the line followed by a blank
        if raw[: len(tag)] != tag or not raw[len(tag) : len(tag) + 1] == " ":
            out["unsupported"].append(ln)
            continue
        try:
            if tag in VERTEX_TAGS:
                kind, n = VERTEX_TAGS[tag]
                vals = [float(t) for t in toks[2 : 2 + n]]
                assert len(toks) == 2 + n
                out["vertices"].append({"id": int(toks[1]), "kind": kind, "pose": vals})
                out["order"].append(("v", len(out["vertices"]) - 1))
            elif tag in EDGE_TAGS:
                typ, pk, ek, nid, haspar, nest, dim = EDGE_TAGS[tag]
                ids = [int(t) for t in toks[1 : 1 + nid]]
                p = 1 + nid
                e = {"type": typ, "tag": tag, "ids": ids, "kind": pk, "est_kind": ek}
                if haspar:
                    e["off_id"] = int(toks[p])
                    p += 1
                vals = [float(t) for t in toks[p:]]
                assert len(vals) == nest + dim * (dim + 1) // 2
                e["est"] = vals[:nest]
                e["om"] = sym_from_upper(vals[nest:], dim)
                if typ == "lm":
                    if haspar:
                        e["off"] = list(out["params"][("PARAMS_SE3OFFSET", e["off_id"])])
                    else:
                        e["off"] = [0.0, 0.0, 0.0]
                        e["off_id"] = 0
                out["edges"].append(e)
                out["order"].append(("e", len(out["edges"]) - 1))
            elif tag in PARAM_TAGS:
                kind, n = PARAM_TAGS[tag]
                assert len(toks) == 2 + n
                out["params"][(tag, int(toks[1]))] = [float(t) for t in toks[2 : 2 + n]]
            elif tag in custom_tags:
                nid, nest, dim = custom_tags[tag]
                ids = [int(t) for t in toks[1 : 1 + nid]]
                vals = [float(t) for t in toks[1 + nid :]]
                assert len(vals) == nest + dim * (dim + 1) // 2
                out["edges"].append({"type": tag, "tag": tag, "ids": ids, "est": vals[:nest], "om": sym_from_upper(vals[nest:], dim)})
                out["order"].append(("e", len(out["edges"]) - 1))
            else:
                out["unsupported"].append(ln)
        except (AssertionError, ValueError, IndexError, KeyError):
            raise ValueError("reference parser: malformed supported line %d: %r" % (ln, raw))
    return out
