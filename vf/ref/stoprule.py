"""The documented stopping rule and report bookkeeping of Graph.optimize, written from the documentation
(also the transcription of vf/tla/OptimizeLoop.tla used when TLC is not available).

chi2_at(t) = chi^2 of the state after t updates (t = 0, 1, ...).  The run stops at the first iteration i >= 1 whose
chi^2 did not increase and whose relative decrease is below tol, otherwise at max_iter.
"""
import math
import sys

EPS = sys.float_info.epsilon


def rel_decrease(prev, cur):
    return (prev - cur) / (prev + EPS)


def check(prev, cur, tol):
    # IEEE semantics: any comparison with NaN is False
    return (cur <= prev) and (rel_decrease(prev, cur) < tol)


def predict(chi2_at, tol, max_iter):
    """returns dict(converged, num_iterations, n_results, updates, chi2s=[chi2 recorded per iteration result], initial, final, rel_diffs)"""
    hist = []
    for i in range(max_iter):
        c = chi2_at(i)
        hist.append(c)
        if i > 0 and check(hist[i - 1], c, tol):
            return {
                "converged": True,
                "num_iterations": i,
                "n_results": i + 1,
                "updates": i,
                "initial": hist[0],
                "final": c,
                "chi2s": hist[1:] + [None],
                "rel_diffs": [-rel_decrease(hist[k - 1], hist[k]) for k in range(1, len(hist))] + [None],
                "hist": hist,
            }
    c = chi2_at(max_iter)
    hist.append(c)
    return {
        "converged": check(hist[max_iter - 1], c, tol) if max_iter > 0 else False,
        "num_iterations": max_iter,
        "n_results": max_iter,
        "updates": max_iter,
        "initial": hist[0] if max_iter > 0 else None,
        "final": c,
        "chi2s": hist[1:],
        "rel_diffs": [-rel_decrease(hist[k - 1], hist[k]) for k in range(1, len(hist))],
        "hist": hist,
    }


def enumerate_model(max_iter, chi2s, tols):
    """Fallback for TLC: enumerate every behaviour of the loop model (same transition relation as OptimizeLoop.tla) with
    exact rational arithmetic.  yields dict(tol=(num,den), hist, converged, numIter, nResults, updates)."""
    from fractions import Fraction

    def chk(p, c, t):
        return c <= p and (p - c) * t[1] < t[0] * p

    for t in tols:
        stack = [([], 0, 0, 0)]
        while stack:
            hist, i, nres, upd = stack.pop()
            if i < max_iter:
                for c in chi2s:
                    h2 = hist + [c]
                    if i > 0 and chk(hist[i - 1], c, t):
                        yield {"tol": t, "hist": h2, "converged": True, "numIter": i, "nResults": nres + 1, "updates": upd}
                    else:
                        stack.append((h2, i + 1, nres + 1, upd + 1))
            else:
                for c in chi2s:
                    h2 = hist + [c]
                    yield {"tol": t, "hist": h2, "converged": chk(hist[i - 1], c, t), "numIter": max_iter, "nResults": nres, "updates": upd}
