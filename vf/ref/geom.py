"""Reference rigid-motion model, written from the textbook definitions and sharing no code with the library.

A pose is (kind, components):
  R2  [x, y]            R3  [x, y, z]
  SE2 [x, y, theta]     SE3 [x, y, z, qx, qy, qz, qw]   (unit quaternion, Hamilton convention, scalar last)

Rotation of SE3 is computed by the Hamilton sandwich q (x) (v,0) (x) q*  (the library uses an expanded
"v + 2(...)" form and, in to_matrix, the w^2+x^2-y^2-z^2 form).  Group operations go through homogeneous
matrices (lists of lists) with plain Python arithmetic, so the same code runs on float and Fraction.
"""
import math
from fractions import Fraction

DIM = {"R2": 2, "R3": 3, "SE2": 2, "SE3": 3}
COMPACT = {"R2": 2, "R3": 3, "SE2": 3, "SE3": 6}


# ---------------------------------------------------------------- quaternions (x, y, z, w)
def qmul(a, b):
    ax, ay, az, aw = a
    bx, by, bz, bw = b
    return [
        aw * bx + ax * bw + ay * bz - az * by,
        aw * by - ax * bz + ay * bw + az * bx,
        aw * bz + ax * by - ay * bx + az * bw,
        aw * bw - ax * bx - ay * by - az * bz,
    ]


def qconj(q):
    return [-q[0], -q[1], -q[2], q[3]]


def qrot(q, v):
    """Rotate vector v by unit quaternion q: vector part of q (x) (v,0) (x) q*."""
    r = qmul(qmul(q, [v[0], v[1], v[2], 0 * v[0]]), qconj(q))
    return r[:3]


def qnorm2(q):
    return q[0] * q[0] + q[1] * q[1] + q[2] * q[2] + q[3] * q[3]


# ---------------------------------------------------------------- matrices
def matmul(A, B):
    n, m, k = len(A), len(B[0]), len(B)
    return [[sum(A[i][t] * B[t][j] for t in range(k)) for j in range(m)] for i in range(n)]


def matvec(A, v):
    return [sum(A[i][t] * v[t] for t in range(len(v))) for i in range(len(A))]


def eye(n, one=1.0):
    zero = one * 0
    return [[one if i == j else zero for j in range(n)] for i in range(n)]


def rot_se2(theta):
    c, s = math.cos(theta), math.sin(theta)
    return [[c, -s], [s, c]]


def rot_se3(q):
    """Rotation matrix by columns = images of the basis vectors under the sandwich product.
    For non-unit q this is |q|^2 R; callers pass unit quaternions."""
    one = q[3] * 0 + 1
    zero = q[3] * 0
    cols = [qrot(q, [one, zero, zero]), qrot(q, [zero, one, zero]), qrot(q, [zero, zero, one])]
    return [[cols[j][i] for j in range(3)] for i in range(3)]


def to_mat(kind, c):
    """Homogeneous matrix of a pose."""
    d = DIM[kind]
    if kind in ("R2", "R3"):
        one = c[0] * 0 + 1
        M = eye(d + 1, one)
        for i in range(d):
            M[i][d] = c[i]
        return M
    if kind == "SE2":
        R = rot_se2(c[2])
        return [[R[0][0], R[0][1], c[0]], [R[1][0], R[1][1], c[1]], [0.0, 0.0, 1.0]]
    if kind == "SE3":
        R = rot_se3(c[3:7])
        one = c[0] * 0 + 1
        zero = c[0] * 0
        return [R[0] + [c[0]], R[1] + [c[1]], R[2] + [c[2]], [zero, zero, zero, one]]
    raise ValueError(kind)


def mat_inv_rigid(M):
    d = len(M) - 1
    Rt = [[M[j][i] for j in range(d)] for i in range(d)]
    t = [M[i][d] for i in range(d)]
    mt = [-x for x in matvec(Rt, t)]
    out = [Rt[i] + [mt[i]] for i in range(d)]
    out.append([M[d][j] for j in range(d + 1)])
    return out


def mat_apply(M, p):
    d = len(M) - 1
    return [sum(M[i][j] * p[j] for j in range(d)) + M[i][d] for i in range(d)]


# ---------------------------------------------------------------- group operations on components
def compose(kind, a, b):
    """a (+) b as components (same kind)."""
    if kind in ("R2", "R3"):
        return [x + y for x, y in zip(a, b)]
    if kind == "SE2":
        R = rot_se2(a[2])
        t = matvec(R, b[:2])
        return [a[0] + t[0], a[1] + t[1], a[2] + b[2]]
    if kind == "SE3":
        t = qrot(a[3:7], b[:3])
        return [a[0] + t[0], a[1] + t[1], a[2] + t[2]] + qmul(a[3:7], b[3:7])
    raise ValueError(kind)


def inverse(kind, a):
    if kind in ("R2", "R3"):
        return [-x for x in a]
    if kind == "SE2":
        R = rot_se2(-a[2])
        t = matvec(R, a[:2])
        return [-t[0], -t[1], -a[2]]
    if kind == "SE3":
        qi = qconj(a[3:7])
        t = qrot(qi, a[:3])
        return [-t[0], -t[1], -t[2]] + qi
    raise ValueError(kind)


def ominus(kind, a, b):
    """a (-) b := b^-1 (+) a."""
    return compose(kind, inverse(kind, b), a)


def act(kind, a, p):
    """pose a applied to point p."""
    if kind in ("R2", "R3"):
        return [x + y for x, y in zip(a, p)]
    if kind == "SE2":
        t = matvec(rot_se2(a[2]), p)
        return [a[0] + t[0], a[1] + t[1]]
    if kind == "SE3":
        t = qrot(a[3:7], p)
        return [a[0] + t[0], a[1] + t[1], a[2] + t[2]]
    raise ValueError(kind)


def exp_compact(kind, d):
    """The pose whose compact form is d."""
    if kind in ("R2", "R3", "SE2"):
        return list(d)
    n2 = d[3] * d[3] + d[4] * d[4] + d[5] * d[5]
    if n2 > 1 + 1e-12:
        raise ValueError("rotational part of norm > 1 has no pose")
    # a norm of 1 up to rounding of the squares is a half turn (w = 0)
    return list(d[:3]) + [d[3], d[4], d[5], math.sqrt(max(1 - n2, 0))]


def compact(kind, a):
    return list(a[:6]) if kind == "SE3" else list(a)


def identity(kind):
    return {"R2": [0.0, 0.0], "R3": [0.0, 0.0, 0.0], "SE2": [0.0, 0.0, 0.0], "SE3": [0.0, 0.0, 0.0, 0.0, 0.0, 0.0, 1.0]}[kind]


# ---------------------------------------------------------------- angles
_PI50 = Fraction("3.14159265358979323846264338327950288419716939937510582097494459")


def wrap_exact(a):
    """(r, k): r = a - 2 pi k with k the nearest integer, computed in exact rational arithmetic with a
    60-digit pi.  Returned r is a Fraction in [-pi, pi]."""
    fa = Fraction(a)
    two_pi = 2 * _PI50
    k = round(fa / two_pi)
    return fa - k * two_pi, k


def ang_diff(a, b):
    """|a - b| modulo 2 pi as float in [0, pi]."""
    d = math.fmod(a - b, 2 * math.pi)
    if d > math.pi:
        d -= 2 * math.pi
    if d < -math.pi:
        d += 2 * math.pi
    return abs(d)


# ---------------------------------------------------------------- physical comparison
def mat_maxdiff(A, B):
    return max(abs(A[i][j] - B[i][j]) for i in range(len(A)) for j in range(len(A[0])))


def phys_diff(kind, a, b):
    """Distance between two poses as physical transforms (q ~ -q, theta ~ theta + 2 pi k)."""
    return mat_maxdiff(to_mat(kind, a), to_mat(kind, b))


def tscale(*poses):
    """1 + largest |translation component| among the given (kind, comps) pairs."""
    m = 0.0
    for kind, c in poses:
        for x in c[: DIM[kind]]:
            ax = abs(x)
            if ax > m:
                m = ax
    return 1.0 + m
