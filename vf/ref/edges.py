"""Reference measurement models (written from the documentation; no library code).

odometry:  e = compact( z (-) (p2 (-) p1) )        with a (-) b := b^-1 (+) a
landmark:  e = ((p1 (+) offset)^-1 applied to l) - z
chi2    :  e^T Omega e   (plain Python sums)

SE(2): the angular component is reported in [-pi, pi) (compare modulo 2 pi near the seam).
SE(3): the rotational part is the vector part of the error quaternion; q and -q are the same rotation, so
       the reference is defined up to one global sign of the rotational part per evaluation.
"""
import math

from . import geom as G


def wrap(a):
    r = math.fmod(a + math.pi, 2 * math.pi)
    if r < 0:
        r += 2 * math.pi
    return r - math.pi


def odometry_error(kind, p1, p2, z):
    d = G.ominus(kind, p2, p1)
    e = G.ominus(kind, z, d)
    if kind == "SE2":
        return [e[0], e[1], wrap(e[2])]
    return G.compact(kind, e)


def odometry_error_w(p1, p2, z):
    """scalar part of the SE(3) error quaternion (to locate the sign-ambiguity set)."""
    d = G.ominus("SE3", p2, p1)
    e = G.ominus("SE3", z, d)
    return e[6]


def landmark_error(kind, p1, off, l, z):
    s = G.compose(kind, p1, off)
    li = G.act(kind, G.inverse(kind, s), l)
    return [a - b for a, b in zip(li, z)]


def chi2(e, omega):
    n = len(e)
    return sum(e[i] * omega[i][j] * e[j] for i in range(n) for j in range(n))


def flip_rot(e):
    """the other representative of an SE(3) odometry error (rotational part negated)."""
    return list(e[:3]) + [-x for x in e[3:]]


def consistent_measurement(kind, p1, p2):
    """the odometry measurement that agrees exactly with the vertex estimates: z = p2 (-) p1."""
    return G.ominus(kind, p2, p1)


def consistent_landmark(kind, p1, off, l):
    s = G.compose(kind, p1, off)
    return G.act(kind, G.inverse(kind, s), l)
