"""Closed-form weighted least squares for linear (R^2 / R^3) graphs, built from the plain-data spec only.

odometry  (a -> b):  r = z - (x_b - x_a)
landmark  (a -> b):  r = (x_b - (x_a + off)) - z
prior     (a)     :  r = x_a - target
minimise  sum r^T Omega r  over the free vertices; fixed vertices are constants.
Residual rows are whitened with the Cholesky factor of Omega and solved with lstsq.
"""
import numpy as np


def solve(spec, fixed_eff):
    vs = spec["vertices"]
    dim = {"R2": 2, "R3": 3}
    idx = {}
    n = 0
    val = {}
    for v, f in zip(vs, fixed_eff):
        d = dim[v["kind"]]
        val[v["id"]] = np.array(v["pose"], dtype=float)
        if not f:
            idx[v["id"]] = (n, d)
            n += d
    rows = []
    rhs = []
    for e in spec["edges"]:
        om = np.array(e["om"], dtype=float)
        L = np.linalg.cholesky(om)  # om = L L^T  ->  r^T om r = |L^T r|^2
        d = om.shape[0]
        A = np.zeros((d, n))
        c = np.zeros(d)
        t = e["type"]

        def term(vid, sign):
            if vid in idx:
                o, dd = idx[vid]
                A[:, o : o + dd] += sign * np.eye(d, dd)
            else:
                c[:] += sign * val[vid][:d]

        if t in ("odo", "numodo"):
            a, b = e["ids"]
            c += np.array(e["z"], dtype=float)
            term(b, -1.0)
            term(a, +1.0)
        elif t in ("lm", "numlm"):
            a, b = e["ids"]
            term(b, +1.0)
            term(a, -1.0)
            c -= np.array(e["off"], dtype=float)
            c -= np.array(e["z"], dtype=float)
        elif t in ("prior", "numprior"):
            (a,) = e["ids"]
            term(a, +1.0)
            c -= np.array(e["z"], dtype=float)
        else:
            raise ValueError("edge type %s is not linear" % t)
        rows.append(L.T.dot(A))
        rhs.append(-L.T.dot(c))
    if n == 0:
        x = np.zeros(0)
        chi2 = float(sum((r ** 2).sum() for r in rhs))
        return {}, chi2, 1.0
    M = np.vstack(rows)
    y = np.concatenate(rhs)
    x, _, rank, sv = np.linalg.lstsq(M, y, rcond=None)
    cond = float(sv[0] / sv[-1]) if rank == n and sv[-1] > 0 else float("inf")
    res = M.dot(x) - y
    chi2 = float(res.dot(res))
    sol = {vid: x[o : o + d] for vid, (o, d) in idx.items()}
    return sol, chi2, cond
