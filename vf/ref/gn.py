"""Reference Gauss-Newton step: dense normal equations assembled by vertex identity, fixed vertices
removed (reduced system).  e, J and Omega are taken from the edges themselves: C03/C06 are about
accumulation, solve and update (C01/C02 own e and J)."""
import numpy as np


def components(verts, edges):
    """connected components over vertex objects (union-find); returns list of sets of indices into verts."""
    idx = {id(v): i for i, v in enumerate(verts)}
    parent = list(range(len(verts)))

    def find(a):
        while parent[a] != a:
            parent[a] = parent[parent[a]]
            a = parent[a]
        return a

    for e in edges:
        ks = [idx[id(v)] for v in e.vertices]
        for k in ks[1:]:
            ra, rb = find(ks[0]), find(k)
            if ra != rb:
                parent[ra] = rb
    comps = {}
    for i in range(len(verts)):
        comps.setdefault(find(i), set()).add(i)
    return list(comps.values())


def step(verts, edges, fixed):
    """fixed: list of bool per vertex (list order).  Returns dict(dx=[array|None per vertex], cond, wellposed, chi2, b, H)."""
    free = [i for i, f in enumerate(fixed) if not f]
    dims = [v.pose.COMPACT_DIMENSIONALITY for v in verts]
    off = {}
    n = 0
    for i in free:
        off[i] = n
        n += dims[i]
    idx = {id(v): i for i, v in enumerate(verts)}
    b = np.zeros(n)
    H = np.zeros((n, n))
    chi2 = 0.0
    for e in edges:
        err = np.asarray(e.calc_error(), dtype=float).ravel()
        Js = [np.asarray(J, dtype=float) for J in e.calc_jacobians()]
        Om = np.asarray(e.information, dtype=float)
        chi2 += float(err.dot(Om).dot(err))
        ks = [idx[id(v)] for v in e.vertices]
        for a, ka in enumerate(ks):
            if fixed[ka]:
                continue
            oa = off[ka]
            b[oa : oa + dims[ka]] += Js[a].T.dot(Om).dot(err)
            for c, kc in enumerate(ks):
                if fixed[kc]:
                    continue
                oc = off[kc]
                H[oa : oa + dims[ka], oc : oc + dims[kc]] += Js[a].T.dot(Om).dot(Js[c])
    comps = components(verts, edges)
    topo_ok = all(any(fixed[i] for i in c) for c in comps)
    out = {"chi2": chi2, "b": b, "H": H, "free": free, "off": off, "topo_ok": topo_ok, "n": n}
    if n == 0:
        out.update(cond=1.0, wellposed=topo_ok, dx=[None] * len(verts))
        return out
    if not np.all(np.isfinite(H)) or not np.all(np.isfinite(b)):
        out.update(cond=float("inf"), wellposed=False, dx=None)
        return out
    cond = float(np.linalg.cond(H)) if n else 1.0
    out["cond"] = cond
    out["wellposed"] = bool(topo_ok and np.isfinite(cond) and cond <= 1e6)
    if out["wellposed"]:
        sol = -np.linalg.solve(H, b)
        out["dx"] = [None if fixed[i] else sol[off[i] : off[i] + dims[i]] for i in range(len(verts))]
    else:
        out["dx"] = None
    return out
