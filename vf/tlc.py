"""Run TLC on vf/tla/OptimizeLoop.tla and parse the dumped state graph (every node, every edge)."""
import os
import re
import shutil
import subprocess
import tempfile

HERE = os.path.dirname(os.path.abspath(__file__))
SPEC = os.path.join(HERE, "tla", "OptimizeLoop.tla")

_NODE = re.compile(r'^(-?\d+) \[label="([^"]*)"')
_EDGE = re.compile(r'^(-?\d+) -> (-?\d+) \[label="([^"]*)"')


def available():
    return shutil.which("tlc") is not None and os.path.exists(SPEC)


def _val(label, name):
    m = re.search(r"/\\\\ " + name + r" = ([^\\]*?)(?:\\n|$)", label)
    return m.group(1).strip() if m else None


def _seq(s):
    s = s.strip()
    assert s.startswith("<<") and s.endswith(">>"), s
    body = s[2:-2].strip()
    return [int(x) for x in body.split(",")] if body else []


def run(max_iter, chi2s, tols, timeout=1500):
    """returns dict(states, transitions, terminal=[...], tlc_seconds, consistent_tree, stdout_tail)."""
    tmp = tempfile.mkdtemp(prefix="vf-tlc-")
    try:
        shutil.copy(SPEC, os.path.join(tmp, "OptimizeLoop.tla"))
        with open(os.path.join(tmp, "MC.tla"), "w") as f:
            f.write("---- MODULE MC ----\nEXTENDS OptimizeLoop\nTolsDef == {%s}\n====\n" % ", ".join("<<%d, %d>>" % t for t in tols))
        with open(os.path.join(tmp, "MC.cfg"), "w") as f:
            f.write("SPECIFICATION Spec\nCONSTANTS\n  MaxIter = %d\n  Chi2s = {%s}\n  Tols <- TolsDef\nINVARIANT Rule\nINVARIANT TypeOK\n" % (max_iter, ", ".join(str(c) for c in chi2s)))
        dot = os.path.join(tmp, "out.dot")
        cmd = ["tlc", "-workers", "1", "-noGenerateSpecTE", "-deadlock", "-metadir", os.path.join(tmp, "meta"), "-config", "MC.cfg", "-dump", "dot,actionlabels", dot, "MC.tla"]
        p = subprocess.run(cmd, cwd=tmp, stdout=subprocess.PIPE, stderr=subprocess.STDOUT, text=True, timeout=timeout)
        out = p.stdout
        ok = "Model checking completed. No error has been found." in out
        res = {"ok": ok, "stdout_tail": out[-1500:], "violated": "is violated" in out or "Error:" in out}
        m = re.search(r"(\d+) states generated, (\d+) distinct states found", out)
        res["tlc_distinct_states"] = int(m.group(2)) if m else None
        nodes = {}
        edges = []
        if os.path.exists(dot):
            with open(dot) as f:
                for line in f:
                    m = _EDGE.match(line)
                    if m:
                        edges.append((m.group(1), m.group(2), m.group(3)))
                        continue
                    m = _NODE.match(line)
                    if m and m.group(1) not in nodes:
                        lab = m.group(2)
                        nodes[m.group(1)] = {
                            "hist": _seq(_val(lab, "hist")),
                            "tol": tuple(_seq(_val(lab, "tol"))),
                            "done": _val(lab, "done") == "TRUE",
                            "converged": _val(lab, "converged") == "TRUE",
                            "numIter": int(_val(lab, "numIter")),
                            "nResults": int(_val(lab, "nResults")),
                            "updates": int(_val(lab, "updates")),
                            "i": int(_val(lab, "i")),
                        }
        # every edge extends the history by exactly one chi^2 value: the graph is a tree of traces
        tree = True
        indeg = {}
        for a, b, lab in edges:
            if a not in nodes or b not in nodes or nodes[b]["hist"][:-1] != nodes[a]["hist"] or nodes[a]["tol"] != nodes[b]["tol"]:
                tree = False
            indeg[b] = indeg.get(b, 0) + 1
        if any(v != 1 for v in indeg.values()):
            tree = False
        res.update(states=len(nodes), transitions=len(edges), consistent_tree=tree, terminal=[n for n in nodes.values() if n["done"]])
        return res
    finally:
        shutil.rmtree(tmp, ignore_errors=True)
