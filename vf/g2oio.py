"""Implementation-side helpers for the .g2o checks: describe a loaded Graph as plain data, and compare two
descriptions field by field (bitwise, except the representation freedoms the properties allow)."""
import math

import numpy as np

from . import impl as I


def describe_graph(g):
    verts = [{"id": v.id, "kind": I.kind_of(v.pose), "pose": I.comps(v.pose)} for v in I.graph_vertices(g)]
    edges = []
    for e in I.graph_edges(g):
        d = {"ids": [int(i) for i in e.vertex_ids], "om": np.asarray(e.information, dtype=float).tolist()}
        if type(e) is I.EdgeOdometry:
            d["type"] = "odo"
        elif type(e) is I.EdgeLandmark:
            d["type"] = "lm"
        else:
            d["type"] = type(e).__name__
        est = e.estimate
        if isinstance(est, np.ndarray) and hasattr(est, "COMPACT_DIMENSIONALITY"):
            d["est_kind"] = I.kind_of(est)
            d["est"] = I.comps(est)
        else:
            d["est_kind"] = "array"
            d["est"] = [float(x) for x in np.asarray(est, dtype=float).ravel()]
        if isinstance(e, I.EdgeLandmark):
            d["off_kind"] = I.kind_of(e.offset) if e.offset is not None else None
            d["off"] = I.comps(e.offset) if e.offset is not None else None
            d["off_id"] = e.offset_id
        edges.append(d)
    params = {}
    gp = I.graph_params(g)
    if gp:
        for k, p in gp.items():
            params[(k[0], int(k[1]))] = I.comps(p.value)
    return {"vertices": verts, "edges": edges, "params": params}


def ulps(a, b):
    if a == b:
        return 0.0
    if not (math.isfinite(a) and math.isfinite(b)):
        return float("inf")
    u = math.ulp(max(abs(a), abs(b)))
    return abs(a - b) / u


def same_bits(a, b):
    return np.float64(a).tobytes() == np.float64(b).tobytes() or (a == b)  # -0.0 == 0.0 accepted as equal value


def angle_close(a, b, n_ulp=4):
    """same angle modulo 2 pi within n_ulp ulps of pi-sized numbers."""
    d = math.remainder(a - b, 2 * math.pi)
    return abs(d) <= n_ulp * math.ulp(4.0) + n_ulp * math.ulp(max(abs(a), abs(b), 1.0))


def quat_close(q_got, q_ref, n_ulp=4):
    """q_got equals q_ref / (+-|q_ref|) within n_ulp ulps per component."""
    n = math.sqrt(sum(x * x for x in q_ref))
    if n == 0 or not math.isfinite(n):
        return False
    for s in (1.0, -1.0):
        if all(abs(g - s * r / n) <= n_ulp * math.ulp(1.0) for g, r in zip(q_got, q_ref)):
            return True
    return False


def cmp_pose(what, kind, got, ref, msgs, angle_free=True, quat_norm=False):
    """bitwise comparison of components, except SE(2) angles (mod 2 pi, 4 ulp) and, when quat_norm, the SE(3)
    quaternion up to renormalisation/sign."""
    if len(got) != len(ref):
        msgs.append("%s: %d components, expected %d" % (what, len(got), len(ref)))
        return
    n = len(ref)
    for k in range(n):
        if kind == "SE2" and k == 2 and angle_free:
            if not angle_close(got[k], ref[k]):
                msgs.append("%s: angle %.17g is not %.17g modulo 2 pi" % (what, got[k], ref[k]))
            elif not (-math.pi <= got[k] <= math.pi):
                msgs.append("%s: angle %.17g outside [-pi, pi]" % (what, got[k]))
            continue
        if kind == "SE3" and k >= 3 and quat_norm:
            continue
        if not same_bits(got[k], ref[k]):
            msgs.append("%s: component %d is %.17g, expected %.17g (%.3g ulp)" % (what, k, got[k], ref[k], ulps(got[k], ref[k])))
    if kind == "SE3" and quat_norm and not quat_close(got[3:7], ref[3:7]):
        msgs.append("%s: quaternion %r is not the (re)normalised %r" % (what, got[3:7], ref[3:7]))


def cmp_matrix(what, got, ref, msgs):
    got = np.asarray(got, dtype=float)
    ref = np.asarray(ref, dtype=float)
    if got.shape != ref.shape:
        msgs.append("%s: shape %r, expected %r" % (what, got.shape, ref.shape))
        return
    for i in range(ref.shape[0]):
        for j in range(ref.shape[1]):
            if not same_bits(float(got[i, j]), float(ref[i, j])):
                msgs.append("%s[%d][%d] is %.17g, expected %.17g" % (what, i, j, got[i, j], ref[i, j]))
                return


def compare(got, ref, msgs, custom_map=None, quat_norm_est=True, quat_norm_vertex=False):
    """got: describe_graph(...) ; ref: reference description (ref/g2o.parse or describe of the original graph)."""
    custom_map = custom_map or {}
    if len(got["vertices"]) != len(ref["vertices"]):
        msgs.append("%d vertices loaded, expected %d" % (len(got["vertices"]), len(ref["vertices"])))
    for k, (a, b) in enumerate(zip(got["vertices"], ref["vertices"])):
        if a["id"] != b["id"] or a["kind"] != b["kind"]:
            msgs.append("vertex #%d is (id %r, %s), expected (id %r, %s)" % (k, a["id"], a["kind"], b["id"], b["kind"]))
            continue
        cmp_pose("vertex id %r pose" % a["id"], a["kind"], a["pose"], b["pose"], msgs, quat_norm=quat_norm_vertex)
    if len(got["edges"]) != len(ref["edges"]):
        msgs.append("%d edges loaded, expected %d" % (len(got["edges"]), len(ref["edges"])))
    for k, (a, b) in enumerate(zip(got["edges"], ref["edges"])):
        bt = custom_map.get(b["type"], b["type"])
        if a["type"] != bt or a["ids"] != b["ids"]:
            msgs.append("edge #%d is (%s, ids %r), expected (%s, ids %r)" % (k, a["type"], a["ids"], bt, b["ids"]))
            continue
        ek = b.get("est_kind", "array")
        if a["est_kind"] != ek and not (ek == "array" and a["est_kind"] == "array"):
            msgs.append("edge #%d estimate kind %s, expected %s" % (k, a["est_kind"], ek))
            continue
        cmp_pose("edge #%d (%s %r) measurement" % (k, a["type"], a["ids"]), ek, a["est"], b["est"], msgs, quat_norm=quat_norm_est and ek == "SE3")
        cmp_matrix("edge #%d (%s %r) information" % (k, a["type"], a["ids"]), a["om"], b["om"], msgs)
        if b["type"] == "lm":
            if a.get("off") is None:
                msgs.append("edge #%d has no offset" % k)
            else:
                ok = b.get("off_kind") or ("SE2" if len(b["off"]) == 3 else "SE3")
                if a.get("off_kind") != ok:
                    msgs.append("edge #%d offset kind %s, expected %s" % (k, a.get("off_kind"), ok))
                else:
                    cmp_pose("edge #%d (%s %r) offset" % (k, a["type"], a["ids"]), ok, a["off"], b["off"], msgs)
            if "off_id" in b and b["off_id"] is not None and a.get("off_id") != b["off_id"]:
                msgs.append("edge #%d offset id %r, expected %r" % (k, a.get("off_id"), b["off_id"]))
    if ref.get("params") is not None:
        gk, rk = list(got["params"].keys()), list(ref["params"].keys())
        if gk != rk:
            msgs.append("parameters %r, expected %r" % (gk, rk))
        else:
            for key in rk:
                kind = "SE2" if "SE2" in key[0] else "SE3"
                cmp_pose("parameter %r" % (key,), kind, got["params"][key], ref["params"][key], msgs)
