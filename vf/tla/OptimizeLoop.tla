---- MODULE OptimizeLoop ----
(* Control loop of Graph.optimize over an abstract chi^2 sequence chosen by the environment.           *)
(* The documented stopping rule is stated declaratively as the invariant Rule over the algorithmic     *)
(* model; every terminal state carries its whole trace in hist, so each terminal state is one behaviour *)
(* and is replayed against the implementation (vf/checks/c12.py).                                       *)
EXTENDS Naturals, Sequences
CONSTANTS MaxIter, Chi2s, Tols
VARIABLES tol, i, hist, done, converged, numIter, nResults, updates
vars == <<tol, i, hist, done, converged, numIter, nResults, updates>>

\* relative decrease (prev - cur) / prev < tol[1] / tol[2], and chi^2 did not increase (chi^2 >= 1: eps irrelevant)
Check(prev, cur) == cur <= prev /\ (prev - cur) * tol[2] < tol[1] * prev

Init == /\ tol \in Tols
        /\ i = 0 /\ hist = <<>> /\ done = FALSE /\ converged = FALSE /\ numIter = 0 /\ nResults = 0 /\ updates = 0

Iter == /\ ~done /\ i < MaxIter
        /\ \E c \in Chi2s :
             /\ hist' = Append(hist, c) /\ nResults' = nResults + 1
             /\ IF i > 0 /\ Check(hist[i], c)
                  THEN done' = TRUE  /\ converged' = TRUE  /\ numIter' = i /\ updates' = updates /\ i' = i
                  ELSE done' = FALSE /\ converged' = FALSE /\ numIter' = numIter /\ updates' = updates + 1 /\ i' = i + 1
        /\ UNCHANGED tol

Final == /\ ~done /\ i = MaxIter
         /\ \E c \in Chi2s :
              /\ hist' = Append(hist, c) /\ converged' = Check(hist[i], c)
              /\ numIter' = MaxIter /\ done' = TRUE
         /\ UNCHANGED <<tol, i, nResults, updates>>

Next == Iter \/ Final
Spec == Init /\ [][Next]_vars

\* ---- the documented rule, stated over the observed chi^2 history ----
Stops(h, k) == Check(h[k-1], h[k])
FirstStop(h) == IF \E k \in 2..Len(h) : Stops(h, k)
                THEN CHOOSE k \in 2..Len(h) : Stops(h, k) /\ \A j \in 2..(k-1) : ~Stops(h, j)
                ELSE 0
Rule == done => /\ converged = (FirstStop(hist) # 0)
                /\ (converged  => numIter = FirstStop(hist) - 1 /\ Len(hist) = FirstStop(hist))
                /\ (~converged => numIter = MaxIter /\ Len(hist) = MaxIter + 1)
                /\ updates = numIter
                /\ nResults = IF converged /\ numIter < MaxIter THEN numIter + 1 ELSE numIter
TypeOK == i \in 0..MaxIter /\ Len(hist) <= MaxIter + 1 /\ updates <= MaxIter
====
