"""Adapter to the implementation: the ONLY module (with checks' harness edge classes) that names library
classes and the few private attributes the test-suite itself uses (g._vertices, g._edges, g._g2o_params)."""
import numpy as np

from graphslam.pose.r2 import PoseR2
from graphslam.pose.r3 import PoseR3
from graphslam.pose.se2 import PoseSE2
from graphslam.pose.se3 import PoseSE3
from graphslam.vertex import Vertex
from graphslam.graph import Graph
from graphslam.edge.base_edge import BaseEdge
from graphslam.edge.edge_odometry import EdgeOdometry
from graphslam.edge.edge_landmark import EdgeLandmark

KINDS = ("R2", "R3", "SE2", "SE3")
CLS = {"R2": PoseR2, "R3": PoseR3, "SE2": PoseSE2, "SE3": PoseSE3}
COMPACT = {"R2": 2, "R3": 3, "SE2": 3, "SE3": 6}
AMBIENT = {"R2": 2, "R3": 3, "SE2": 3, "SE3": 7}
POINT_OF = {"SE2": "R2", "SE3": "R3", "R2": "R2", "R3": "R3"}


def mk_pose(kind, c):
    if kind == "R2":
        return PoseR2([c[0], c[1]])
    if kind == "R3":
        return PoseR3([c[0], c[1], c[2]])
    if kind == "SE2":
        return PoseSE2([c[0], c[1]], c[2])
    if kind == "SE3":
        return PoseSE3([c[0], c[1], c[2]], [c[3], c[4], c[5], c[6]])
    raise ValueError(kind)


def kind_of(p):
    for k, c in CLS.items():
        if type(p) is c:
            return k
    for k, c in CLS.items():
        if isinstance(p, c):
            return k
    return type(p).__name__


def comps(p):
    return [float(x) for x in np.asarray(p).ravel()]


def pdata(p):
    return [kind_of(p), comps(p)]


def graph_vertices(g):
    return g._vertices  # pylint: disable=protected-access


def graph_edges(g):
    return g._edges  # pylint: disable=protected-access


def graph_params(g):
    return g._g2o_params  # pylint: disable=protected-access


def set_graph_params(g, params):
    g._g2o_params = params  # pylint: disable=protected-access
