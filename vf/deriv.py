"""Derivative oracle: 5-point central differences of an implementation function through the
implementation's own boxplus (DESIGN 3.2).  h = 1e-3: truncation O(h^4), rounding O(eps/h)."""
import math

import numpy as np

H = 1e-3
TWO_PI = 2 * math.pi


def fd5(f, h=H):
    """f: float -> 1-D ndarray.  Returns f'(0)."""
    return (-f(2 * h) + 8.0 * f(h) - 8.0 * f(-h) + f(-2 * h)) / (12.0 * h)


def align_to(ref, val, angle_idx=(), rot_slice=None):
    """Make val continuous with ref: unwrap angular components by multiples of 2 pi; choose the sign of a
    quaternion-vector block (sign ambiguity q ~ -q) that is closest to ref when that block is not small."""
    val = np.array(val, dtype=float)
    for k in angle_idx:
        val[k] -= TWO_PI * round((val[k] - ref[k]) / TWO_PI)
    if rot_slice is not None:
        r0 = ref[rot_slice]
        if float(np.dot(r0, r0)) > 0.25 and float(np.dot(r0, val[rot_slice])) < 0.0:
            val[rot_slice] = -val[rot_slice]
    return val


def edge_fd_jacobian(edge, vi, angle_idx=(), rot_slice=None, h=H):
    """5-point Jacobian of edge.calc_error() w.r.t. the boxplus perturbation of edge.vertices[vi]."""
    v = edge.vertices[vi]
    p0 = v.pose
    dim = p0.COMPACT_DIMENSIONALITY
    e0 = np.array(edge.calc_error(), dtype=float).ravel()
    J = np.zeros((len(e0), dim))
    try:
        for d in range(dim):

            def f(s, d=d):
                delta = np.zeros(dim)
                delta[d] = s
                v.pose = p0 + delta
                return align_to(e0, np.array(edge.calc_error(), dtype=float).ravel(), angle_idx, rot_slice)

            J[:, d] = fd5(f, h)
    finally:
        v.pose = p0
    return e0, J
