"""Ground-truth SLAM graph families (DESIGN 4 C05): ring, figure-eight, Manhattan grid (SE2); helix, tilted ring (SE3).
Odometry chain + loop closure + chords, n/4 landmarks each seen from two poses through a rotated sensor offset,
SPD information with translation-rotation cross terms.  Measurements are generated with the REFERENCE geometry
(vf/ref/geom.py), never with the library.
"""
import math

from . import alphabets as A
from .ref import geom as G

PERT_PATTERNS = ("plus", "minus", "alt", "sin", "cos")
NOISE_PATTERNS = ("zero", "alt", "sin")


def _pat(name, i, c):
    if name == "plus":
        return 1.0
    if name == "minus":
        return -1.0
    if name == "alt":
        return 1.0 if (i + c) % 2 == 0 else -1.0
    if name == "sin":
        return math.sin(1.3 * i + 0.7 * c + 0.2)
    if name == "cos":
        return math.cos(0.9 * i + 1.1 * c)
    if name == "zero":
        return 0.0
    raise ValueError(name)


def _qz(a):
    return [0.0, 0.0, math.sin(a / 2), math.cos(a / 2)]


def truth_poses(family, kind, n):
    out = []
    if kind == "SE2":
        for i in range(n):
            if family == "ring":
                R = n / (2 * math.pi)
                a = 2 * math.pi * i / n
                out.append([R * math.cos(a), R * math.sin(a), a + math.pi / 2])
            elif family == "eight":
                a = 2 * math.pi * i / n
                R = n / (2 * math.pi)
                x, y = R * math.sin(a), R * math.sin(a) * math.cos(a)
                dx, dy = math.cos(a), math.cos(2 * a)
                out.append([x, y, math.atan2(dy, dx)])
            elif family == "grid":
                w = max(2, int(math.sqrt(n)))
                r, c = divmod(i, w)
                cc = c if r % 2 == 0 else w - 1 - c
                out.append([float(cc), float(r), 0.0 if r % 2 == 0 else math.pi - 0.001 * (i % 3)])
            else:
                raise ValueError(family)
        return out
    base = A.unit([0.2, -0.1, 0.15, 0.95])
    for i in range(n):
        R = n / (2 * math.pi)
        a = 2 * math.pi * i / n * (2 if family == "helix" else 1)
        z = 0.15 * i if family == "helix" else 0.3 * math.sin(a)
        local = [R * math.cos(a), R * math.sin(a), z] + G.qmul(_qz(a + math.pi / 2), A.unit([0.05 * math.sin(i), 0.08, 0.0, 1.0]))
        out.append(G.compose("SE3", [0.3, -0.2, 0.1] + base, local))
    return out


def _omega(kind, k, seed):
    n = G.COMPACT[kind]
    M = A.spd(n, seed, "sf%d" % (k % 7))
    return M


def make(family, kind, n, pert="alt", noise="zero", dt=0.1, dr=0.05, nz=0.0, seed=0, numeric=False, fixed_first=True):
    """returns (spec, truth) ; truth = list of (id, kind, comps)."""
    pk = "R2" if kind == "SE2" else "R3"
    d = G.DIM[kind]
    truth = truth_poses(family, kind, n)
    verts = []
    tr = []
    for i, t in enumerate(truth):
        c = G.COMPACT[kind]
        delta = [dt * _pat(pert, i, k) for k in range(d)] + [dr * _pat(pert, i, k + d) for k in range(c - d)]
        if i == 0 and fixed_first:
            init = list(t)
        else:
            init = G.compose(kind, t, G.exp_compact(kind, delta))
        verts.append({"id": i, "kind": kind, "pose": init, "fixed": bool(i == 0 and fixed_first)})
        tr.append([i, kind, list(t)])
    edges = []
    pairs = [(i, i + 1) for i in range(n - 1)] + [(n - 1, 0)]
    if n >= 6:
        pairs += [(i, (i + n // 2) % n) for i in range(0, n, max(2, n // 4))]
    if n >= 12:
        pairs += [(i + 3, i) for i in range(0, n - 3, 5)]
    for k, (i, j) in enumerate(pairs):
        z = G.ominus(kind, truth[j], truth[i])
        c = G.COMPACT[kind]
        nvec = [nz * _pat(noise, k, q) for q in range(c)]
        if kind == "SE3":
            nvec = nvec[:3] + [0.5 * x for x in nvec[3:]]
        z = G.compose(kind, z, G.exp_compact(kind, nvec))
        edges.append({"type": "numodo" if numeric else "odo", "ids": [i, j], "z": z, "om": _omega(kind, k, seed)})
    nl = max(1, n // 4)
    off = [0.3, -0.2, 0.5] if kind == "SE2" else [0.2, -0.1, 0.15] + A.unit([0.2, -0.3, 0.1, 0.9])
    for l in range(nl):
        lid = 1000 + l
        a, b = (2 * l) % n, (2 * l + 1) % n
        ct = G.act(kind, truth[a], [1.5 + 0.2 * l, -0.7, 0.4][:d])
        li = [ct[q] + dt * _pat(pert, l, q + 1) for q in range(d)]
        verts.append({"id": lid, "kind": pk, "pose": li, "fixed": False})
        tr.append([lid, pk, list(ct)])
        for m, p in enumerate((a, b)):
            sens = G.compose(kind, truth[p], off)
            z = G.act(kind, G.inverse(kind, sens), ct)
            z = [z[q] + nz * _pat(noise, l + m, q) for q in range(d)]
            edges.append({"type": "numlm" if numeric else "lm", "ids": [p, lid], "z": z, "off": off, "om": A.spd(d, seed, "sl%d" % ((l + m) % 5))})
    return {"vertices": verts, "edges": edges}, tr


FAMILIES = {"SE2": ("ring", "eight", "grid"), "SE3": ("ring", "helix")}
