"""Finite alphabets (DESIGN 3.3).  quick is a subset of thorough; everything is deterministic.

VERIF_SEED never selects which combinations are visited (all are); it only moves the *generic*
representatives (g1, g2, generic translations, SPD matrices) inside safe ranges.  Special members (0, +-pi,
identity, Hurwitz units, w = 0, ...) never change.  seed 0 gives the canonical values.
"""
import itertools
import math
import random

PI = math.pi


def _rng(seed, tag):
    return random.Random("%d/%s" % (seed, tag))


def jit(seed, tag, vals, rel=0.2):
    """Jitter generic values by up to +-rel (relative); seed 0 -> unchanged."""
    if seed == 0:
        return list(vals)
    r = _rng(seed, tag)
    return [v * (1.0 + rel * (2 * r.random() - 1)) for v in vals]


def unit(q):
    n = math.sqrt(sum(x * x for x in q))
    return [x / n for x in q]


# ------------------------------------------------------------------ translations
def T(n, tier, seed, level=None):
    g1 = jit(seed, "T1", [0.7, -1.3, 2.1])[:n]
    g2 = jit(seed, "T2", [-3.2, 0.4, -0.9])[:n]
    out = [[0.0] * n, g1, g2]
    if tier == "thorough" or level == "full":
        out += [
            jit(seed, "T3", [250.0, -310.0, 120.0])[:n],
            jit(seed, "T4", [1e-3, -2e-3, 5e-4])[:n],
            [0.0, 5.0, 0.0][:n],
            jit(seed, "T5", [1e3, -2e3, 5e2])[:n],
        ]
    return out


# ------------------------------------------------------------------ angles
ANG_PLUS_PI_SOURCE = math.nextafter(-PI, -math.inf)  # the one float the wrap maps to +pi


def ANG(tier, seed, level=None):
    g = jit(seed, "ANG", [0.3, 2.0, 3.1], rel=0.01)
    out = [0.0, g[0], -g[0], PI / 2, -PI / 2, g[1], -g[1], g[2], -g[2], PI, ANG_PLUS_PI_SOURCE, 2e-3]
    if tier == "thorough" or level == "full":
        out += [PI / 4, -PI / 4, 1.0, -1.0, 1e-9, -1e-9, PI - 1e-6, -(PI - 1e-6), 3.5, -7.0, 1e3, -1e3, 1e6, -1e6]
    return out


def ANG_DENSE():
    """C11: every k*pi/4 +- j ulp, +-10^m, multiples of 2 pi +- ulps."""
    out = set()
    for k in range(-16, 17):
        b = k * PI / 4
        x = b
        out.add(b)
        for _ in range(3):
            x = math.nextafter(x, math.inf)
            out.add(x)
        x = b
        for _ in range(3):
            x = math.nextafter(x, -math.inf)
            out.add(x)
    for m in range(-9, 7):
        for s in (1, -1):
            out.add(s * 10.0**m)
            out.add(s * 3.0 * 10.0**m)
    for k in range(-3, 4):
        b = 2 * PI * k
        for j in range(-2, 3):
            x = b
            for _ in range(abs(j)):
                x = math.nextafter(x, math.inf if j > 0 else -math.inf)
            out.add(x)
    for v in (0.5, -0.5, 2.5, -2.5, 3.0, -3.0, 3.14, -3.14, 3.15, -3.15, 6.28, 6.29, -6.28, -6.29, 100.0, -100.0, 12345.678, -98765.4321, 999999.5, -999999.5):
        out.add(v)
    return sorted(out)


# ------------------------------------------------------------------ unit quaternions (x, y, z, w)
def hurwitz24():
    out = []
    for i in range(4):
        for s in (1.0, -1.0):
            q = [0.0] * 4
            q[i] = s
            out.append(q)
    for signs in itertools.product((0.5, -0.5), repeat=4):
        out.append(list(signs))
    return out


def Q(tier, seed, level=None):
    g1 = unit(jit(seed, "Q1", [0.1, -0.2, 0.3, 0.9]))
    out = [
        [0.0, 0.0, 0.0, 1.0],
        [0.0, 0.0, 0.0, -1.0],
        [1.0, 0.0, 0.0, 0.0],
        [0.5, 0.5, 0.5, 0.5],
        [-0.5, 0.5, -0.5, -0.5],
        g1,
        [-x for x in g1],
        unit(jit(seed, "Q180", [2.0, -3.0, 6.0]) + [0.0]),
        unit(jit(seed, "Qsmall", [1e-3, -2e-3, 1.5e-3]) + [1.0]),  # small but non-zero rotation (defeats "isclose(w, 1)" shortcuts)
        # planar robots stored in SE(3): pure yaw, qx = qy = 0 exactly (two different yaw angles so that pairs of them differ)
        [0.0, 0.0, math.sin(0.35), math.cos(0.35)],
        [0.0, 0.0, -math.sin(1.1), math.cos(1.1)],
    ]
    if tier == "thorough" or level == "full":
        seen = {tuple(q) for q in out}
        for q in hurwitz24():
            if tuple(q) not in seen:
                out.append(q)
        out += [
            unit(jit(seed, "Q2", [0.6, -0.3, 0.5, -0.2])),
            [0.2, 0.4, 0.4, 0.8],
            [x / 7.0 for x in (-2.0, 4.0, 5.0, 2.0)],
            unit([1e-8, -2e-8, 1e-8, 1.0]),
            # 179.99 degrees about a generic axis
            (lambda ax, h: [ax[0] * math.sin(h), ax[1] * math.sin(h), ax[2] * math.sin(h), math.cos(h)])(unit([1.0, 2.0, -2.0]), math.radians(179.99) / 2),
        ]
    return out


def Q_small(seed):
    """4-member sub-alphabet: generic, w<0, 180 deg, Hurwitz."""
    g1 = unit(jit(seed, "Q1", [0.1, -0.2, 0.3, 0.9]))
    return [g1, [-0.5, 0.5, -0.5, -0.5], unit(jit(seed, "Q180", [2.0, -3.0, 6.0]) + [0.0]), [0.0, 0.0, 0.0, 1.0]]


# ------------------------------------------------------------------ poses as (kind, comps)
def poses(kind, tier, seed, level=None, max_t=None, max_r=None):
    if kind == "R2":
        ts = T(2, tier, seed, level)
        return [list(t) for t in ts[: max_t or len(ts)]]
    if kind == "R3":
        ts = T(3, tier, seed, level)
        return [list(t) for t in ts[: max_t or len(ts)]]
    if kind == "SE2":
        ts = T(2, tier, seed, level)
        an = ANG(tier, seed, level)
        return [list(t) + [a] for t in ts[: max_t or len(ts)] for a in an[: max_r or len(an)]]
    if kind == "SE3":
        ts = T(3, tier, seed, level)
        qs = Q(tier, seed, level)
        return [list(t) + list(q) for t in ts[: max_t or len(ts)] for q in qs[: max_r or len(qs)]]
    raise ValueError(kind)


# ------------------------------------------------------------------ information matrices
def spd(n, seed, tag="spd"):
    """Fixed SPD matrix with all cross terms: A^T A + n I from a deterministic integer-ish A."""
    r = _rng(seed, tag + str(n))
    A = [[((i * 7 + j * 3) % 5 - 2) + (0.25 * r.random() if seed else 0.0) + (0.5 if (i + 2 * j) % 3 == 0 else 0.0) for j in range(n)] for i in range(n)]
    M = [[sum(A[k][i] * A[k][j] for k in range(n)) + (n if i == j else 0.0) for j in range(n)] for i in range(n)]
    return M


def OMEGA(n, tier, seed, level=None):
    I = [[1.0 if i == j else 0.0 for j in range(n)] for i in range(n)]
    D = [[float((i + 1) ** 2) if i == j else 0.0 for j in range(n)] for i in range(n)]
    # "weak": correlated information of very small overall scale (all entries far below any absolute 'is it zero?' threshold)
    out = [("I", I), ("diag", D), ("spd", spd(n, seed)), ("weak", [[1e-10 * x for x in r_] for r_ in spd(n, seed, "weak")])]
    if tier == "thorough" or level == "full":
        # ill-conditioned SPD (cond ~1e8): spd scaled along one axis
        S = spd(n, seed, "ill")
        ill = [[S[i][j] * (1e-4 if i == 0 else 1.0) * (1e-4 if j == 0 else 1.0) for j in range(n)] for i in range(n)]
        v = [float(i + 1) for i in range(n)]
        rank1 = [[v[i] * v[j] for j in range(n)] for i in range(n)]
        Z = [[0.0] * n for _ in range(n)]
        out += [("ill", ill), ("rank1", rank1), ("zero", Z), ("1e-6I", [[1e-6 * x for x in r_] for r_ in I]), ("1e6I", [[1e6 * x for x in r_] for r_ in I])]
    return out


IDS_SPECIAL = [-5, 7, 1000, 2**40, 2**63 - 1]
