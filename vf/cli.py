"""vcheck <ID> quick|thorough [--seed N] | vcheck <ID> --replay <file> | vcheck all quick"""
import importlib
import os
import sys


def _bootstrap_repo():
    repo = os.environ.get("VERIF_REPO")
    if repo:
        sys.path.insert(0, os.path.abspath(repo))
    import warnings

    warnings.filterwarnings("ignore")
    import graphslam  # noqa: F401  (imported before the pool forks)

    if repo and not os.path.abspath(graphslam.__file__).startswith(os.path.abspath(repo)):
        sys.stdout.write("HARNESS-ERROR VERIF_REPO=%s but graphslam was imported from %s\n" % (repo, graphslam.__file__))
        sys.exit(2)


ALL = ["C%02d" % i for i in range(1, 19)]


def main(argv):
    if len(argv) < 2:
        sys.stdout.write(__doc__ + "\n")
        return 2
    pid = argv[0].upper()
    _bootstrap_repo()
    from . import runner

    if pid == "ALL":
        rc = 0
        for p in ALL:
            try:
                mod = importlib.import_module("vf.checks." + p.lower())
            except ModuleNotFoundError:
                continue
            rc = max(rc, runner.run_check(mod, argv[1], int(os.environ.get("VERIF_SEED", "0") or 0)))
        return rc
    mod = importlib.import_module("vf.checks." + pid.lower())
    if argv[1] == "--replay":
        return runner.replay(mod, argv[2])
    tier = argv[1]
    if tier not in ("quick", "thorough"):
        tier = os.environ.get("VERIF_TIER", "quick")
    seed = int(os.environ.get("VERIF_SEED", "0") or 0)
    if "--seed" in argv:
        seed = int(argv[argv.index("--seed") + 1])
    return runner.run_check(mod, tier, seed)


if __name__ == "__main__":
    sys.exit(main(sys.argv[1:]))
