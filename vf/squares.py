"""Commuting-square exploration shared by C07 and C08 (engine E2).

State graph: nodes = graph states x_k (vertex poses), transitions = GN (one optimizer iteration, tol=0) and a change of
description R (world-frame change for C07, representation change for C08).  At every state x_k of the trajectory
x_{k+1} = GN(x_k), k = 0..steps, the square   GN(R(x_k)) = R(GN(x_k))   and the chi2 relation are checked on the real code.
"""
import copy
import math

import numpy as np

from . import gbuild as GB
from . import impl as I
from .ref import geom as G
from .ref import gn


class Rep:
    """A change of description.  spec_map(spec) -> spec'; pose_map(vertex_dict) -> expected comps of that vertex in the
    R-world; id_map(id) -> id'; chi_factor; compare_errors: per-edge error vectors must coincide (C07)."""

    name = "?"
    chi_factor = 1.0
    compare_errors = False
    scale = 1.0

    def spec_map(self, spec):
        raise NotImplementedError

    def pose_map(self, v):
        return list(v["pose"])

    def id_map(self, i):
        return i


def with_state(spec, snap):
    """spec with vertex poses replaced by the snapshot (list of [id, kind, comps] in the same list order)."""
    s = {"vertices": [dict(v, pose=list(sn[2])) for v, sn in zip(spec["vertices"], snap)], "edges": spec["edges"]}
    for k in spec:
        if k not in s and k != "share":  # after an optimizer step the poses are new objects: the sharing is gone
            s[k] = spec[k]
    return s


def _tscale(spec):
    m = 0.0
    for v in spec["vertices"]:
        for x in v["pose"][: G.DIM[v["kind"]]]:
            m = max(m, abs(x))
    return m


def run(spec0, rep, steps, tol=1e-11, direct=True, ffp=False):
    """returns (msgs, info) ; info: squares, excluded, ratio, chis"""
    msgs = []
    info = {"squares": 0, "excluded": 0, "ratio": 0.0, "states": 0}
    spec = copy.deepcopy(spec0)
    if ffp:
        # nothing pre-marked: fix_first_pose=True must mean the first LISTED vertex in both descriptions
        spec0 = copy.deepcopy(spec0)
        for sp in (spec, spec0):
            for v in sp["vertices"]:
                v["fixed"] = False
    fixed = [bool(v.get("fixed")) for v in spec["vertices"]]
    if ffp:
        fixed[0] = True
    for k in range(steps + 1):
        gA, vA, eA = GB.build(spec)
        ref = gn.step(vA, eA, fixed)
        if not ref["wellposed"] or not all(np.all(np.isfinite(np.asarray(v.pose))) for v in vA):
            info["excluded"] += 1
            break
        if getattr(rep, "perm", None) is not None and getattr(rep, "reuse_vertex_objects", False) and len(rep.perm) == len(vA):
            # history: the same Vertex objects are also put into a SECOND graph with a permuted vertex list (as the library's own
            # shuffle helper does); the first graph must keep working
            I.Graph([], [vA[j] for j in rep.perm])
        specB = rep.spec_map(spec)
        specB.pop("share", None)  # object reuse is a property of the original description only
        gB, vB, eB = GB.build(specB)
        info["states"] += 1
        sc = 1.0 + _tscale(spec) + _tscale(specB) + rep.scale
        with np.errstate(all="ignore"):
            chiA = float(gA.calc_chi2())
            chiB = float(gB.calc_chi2())
        tolc = 1e-9 * (abs(chiA) * rep.chi_factor + 1.0) * sc
        rc = abs(chiB - rep.chi_factor * chiA) / tolc
        info["ratio"] = max(info["ratio"], rc)
        if not rc <= 1.0:
            msgs.append("state %d: chi2 of the %s description is %.17g, expected %g x %.17g" % (k, rep.name, chiB, rep.chi_factor, chiA))
        if rep.compare_errors:
            for n_, (ea, eb) in enumerate(zip(eA, eB)):
                a = np.asarray(ea.calc_error(), dtype=float)
                b = np.asarray(eb.calc_error(), dtype=float)
                d = float(np.max(np.abs(a - b))) if a.shape == b.shape else float("inf")
                r = d / (tol * sc)
                info["ratio"] = max(info["ratio"], r)
                if not r <= 1.0:
                    msgs.append("state %d: error of edge #%d changes under the %s: %r -> %r" % (k, n_, rep.name, a.tolist(), b.tolist()))
        if getattr(rep, "inplace", False) and not spec.get("share"):
            # (not for graphs with object reuse: rewriting a pose that IS a measurement object legitimately changes the measurement)
            # history: a third graph is evaluated once in the original description, then its vertex poses are rewritten IN PLACE
            # into the R-description (same objects, same edges); everything must follow (no stale per-object intermediate results)
            gC, vC, eC = GB.build(spec)
            with np.errstate(all="ignore"):
                gC.calc_chi2()
                for ed in eC:
                    ed.calc_error()
                    ed.calc_jacobians()
            for vc, vd in zip(vC, spec["vertices"]):
                np.asarray(vc.pose)[...] = I.comps(I.mk_pose(vd["kind"], rep.pose_map(vd)))
            with np.errstate(all="ignore"):
                chiC = float(gC.calc_chi2())
            if not abs(chiC - chiB) <= tolc:
                msgs.append("state %d: after rewriting the vertex poses IN PLACE into the %s, chi2 is %.17g but a freshly built graph in that description has %.17g" % (k, rep.name, chiC, chiB))
            GB.optimize(gC, tol=0.0, max_iter=1, fix_first_pose=False)
        # one Gauss-Newton step on both sides
        GB.optimize(gA, tol=0.0, max_iter=1, fix_first_pose=ffp)
        GB.optimize(gB, tol=0.0, max_iter=1, fix_first_pose=ffp)
        if ffp:
            for sp_v, va in zip(spec["vertices"], vA):
                sp_v["fixed"] = False  # the flag set by the call is not part of the next state's description
        snapA = GB.snapshot(vA)
        byidB = {v.id: v for v in vB}
        dxn = max([float(np.max(np.abs(d))) for d in ref["dx"] if d is not None] or [0.0])
        tolp = tol * (sc + dxn) * max(1.0, ref["cond"] / 1e3)
        info["squares"] += 1
        for v, sn in zip(spec["vertices"], snapA):
            exp = rep.pose_map(dict(v, pose=sn[2]))
            vb = byidB.get(rep.id_map(v["id"]))
            if vb is None:
                msgs.append("vertex id %r has no counterpart in the %s description" % (v["id"], rep.name))
                continue
            got = I.comps(vb.pose)
            if not all(np.isfinite(got)) or not all(np.isfinite(exp)):
                if all(np.isfinite(exp)) != all(np.isfinite(got)):
                    msgs.append("state %d: vertex id %r finite on one side of the square only" % (k, v["id"]))
                continue
            d = G.phys_diff(v["kind"], got, exp)
            r = d / tolp
            info["ratio"] = max(info["ratio"], r)
            if not r <= 1.0:
                msgs.append("state %d: GN(%s(x)) != %s(GN(x)) at vertex id %r (%s): %r vs %r (|diff| %.3g > %.3g)" % (k, rep.name, rep.name, v["id"], v["kind"], got, [float(x) for x in exp], d, tolp))
        if getattr(rep, "inplace", False) and not spec.get("share") and not msgs:
            for vc, vb in zip(vC, [byidB.get(rep.id_map(v["id"])) for v in spec["vertices"]]):
                gc, gb = I.comps(vc.pose), I.comps(vb.pose)
                if all(np.isfinite(gc)) and all(np.isfinite(gb)):
                    d = G.phys_diff(I.kind_of(vc.pose), gc, gb)
                    if d > tolp:
                        msgs.append("state %d: one Gauss-Newton step after the in-place rewrite differs from the step of a freshly built graph by %.3g at vertex id %r" % (k, d, vc.id))
                        break
        if msgs:
            break
        spec = with_state(spec, snapA)
    if direct and not msgs and info["squares"] == steps + 1:
        # direct k-step comparison (looser: five nonlinear steps amplify rounding)
        gA, vA, eA = GB.build(spec0)
        sB = rep.spec_map(copy.deepcopy(spec0))
        sB.pop("share", None)
        gB, vB, eB = GB.build(sB)
        GB.optimize(gA, tol=0.0, max_iter=steps, fix_first_pose=False)
        GB.optimize(gB, tol=0.0, max_iter=steps, fix_first_pose=False)
        byidB = {v.id: v for v in vB}
        sc = 1.0 + _tscale(spec0) + rep.scale
        for v, sn in zip(spec0["vertices"], GB.snapshot(vA)):
            exp = rep.pose_map(dict(v, pose=sn[2]))
            got = I.comps(byidB[rep.id_map(v["id"])].pose)
            if all(np.isfinite(got)) and all(np.isfinite(exp)):
                d = G.phys_diff(v["kind"], got, exp)
                if d > 1e-6 * sc:
                    msgs.append("%d-step run: %s(optimize(x)) and optimize(%s(x)) differ at vertex id %r by %.3g" % (steps, rep.name, rep.name, v["id"], d))
    if direct and not msgs and info["squares"] == steps + 1:
        # the optimum reached by a full optimize() run is the same physical configuration, and final_chi2 scales accordingly
        gA, vA, eA = GB.build(spec0)
        sB = rep.spec_map(copy.deepcopy(spec0))
        sB.pop("share", None)
        gB, vB, eB = GB.build(sB)
        rA = GB.optimize(gA, tol=1e-10, max_iter=50, fix_first_pose=False)
        rB = GB.optimize(gB, tol=1e-10, max_iter=50, fix_first_pose=False)
        byidB = {v.id: v for v in vB}
        sc = 1.0 + _tscale(spec0) + rep.scale
        for v, sn in zip(spec0["vertices"], GB.snapshot(vA)):
            exp = rep.pose_map(dict(v, pose=sn[2]))
            got = I.comps(byidB[rep.id_map(v["id"])].pose)
            if all(np.isfinite(got)) and all(np.isfinite(exp)):
                d = G.phys_diff(v["kind"], got, exp)
                info["ratio"] = max(info["ratio"], d / (1e-7 * sc))
                if d > 1e-7 * sc:
                    msgs.append("optimize(tol=1e-10): the optimum of the %s description differs at vertex id %r by %.3g (%d vs %d iterations)" % (rep.name, v["id"], d, rB.num_iterations, rA.num_iterations))
                    break
        om_max = max([abs(x) for e in spec0["edges"] for r in e["om"] for x in r] or [1.0])
        floor = 1e4 * len(spec0["edges"]) * om_max * (2.2e-16 * sc) ** 2 * rep.chi_factor  # chi2 of a noise-free optimum is rounding noise ~ (eps x coordinate scale)^2
        if not msgs and not abs(rB.final_chi2 - rep.chi_factor * rA.final_chi2) <= 1e-6 * abs(rep.chi_factor * rA.final_chi2) + floor:
            msgs.append("optimize(tol=1e-10): final_chi2 of the %s description is %.17g, expected %g x %.17g" % (rep.name, rB.final_chi2, rep.chi_factor, rA.final_chi2))
    return msgs, info
