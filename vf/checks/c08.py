"""C08 - results do not depend on representation choices of the same physical graph (engine E2: commuting squares)."""
import copy
import itertools
import math

from .. import alphabets as A
from .. import families as F
from .. import slamfam as SF
from .. import squares as SQ
from ..runner import Acc

ID = "C08"

META = {
    "rule": "graphs = every well-posed member of F(3, m<=2) incl. custom unary/ternary edges + SLAM families n=3 (thorough: 6); representation changes R enumerated completely per graph: "
    "every vertex-list permutation (fixed flags travel), every edge-list permutation (m<=4, else reversal/rotation), every injective id relabeling from a 4-id (thorough 6-id) pool incl. "
    "negative/huge ids, theta -> theta + 2 pi k (k in +-1, +-2, 3, -5) on every single SE(2) vertex / measurement / offset and on all at once, EVERY sign pattern of quaternion negation over all "
    "SE(3) vertices, measurements and offsets (2^q, q<=8), every subset of edges split into two half-information edges, the same graph written to .g2o text under 5 id maps (plain, 2^60+3i, -(2^53)-1-2i, 2^53+1+i, alternating) and loaded: same chi2 and same 2-iteration result; information scaling c in {1e-12, 1e-6, 1e-3, 0.5, 2, 1e3}. At every state of the "
    "trajectory x_{k+1} = GN(x_k): chi2(R(x)) = c chi2(x) and GN(R(x)) = R(GN(x)). non-trivial = R is not the identity and the step moves a vertex",
    "assumptions": ["finite graph family; information matrices have translation-rotation cross terms", "tolerance 1e-11 scaled (measured rounding noise <= 2e-14 scaled); ill-conditioned states end the trajectory (counted)"],
    "required_classes": ["R:relabel_through_loader", "R:vertex_perm", "R:edge_perm", "R:relabel", "R:angle_2pi", "R:quat_sign", "R:split", "R:scale", "kind:SE2", "kind:SE3", "custom_edges", "slam_family", "shape_family", "cross_term_information"],
    "bounds": {"quick": "shape family: 1 step (2 states); SLAM n=3: 5 steps; id pool of 4", "thorough": "5 steps everywhere; SLAM n in {3,6}; id pool of 6"},
}

ID_POOL = [7, 0, -5, 2**40, 1000, 2**63 - 1]


class VertexPerm(SQ.Rep):
    reuse_vertex_objects = True

    def __init__(self, perm):
        self.perm = perm
        self.name = "vertex list permutation %r" % (perm,)

    def spec_map(self, spec):
        s = copy.deepcopy(spec)
        s["vertices"] = [s["vertices"][k] for k in self.perm]
        return s


class EdgePerm(SQ.Rep):
    def __init__(self, perm):
        self.perm = perm
        self.name = "edge list permutation %r" % (perm,)

    def spec_map(self, spec):
        s = copy.deepcopy(spec)
        s["edges"] = [s["edges"][k] for k in self.perm]
        return s


class Relabel(SQ.Rep):
    def __init__(self, m):
        self.m = m
        self.name = "id relabeling %r" % (m,)

    def id_map(self, i):
        return self.m[i]

    def spec_map(self, spec):
        s = copy.deepcopy(spec)
        for v in s["vertices"]:
            v["id"] = self.m[v["id"]]
        for e in s["edges"]:
            e["ids"] = [self.m[i] for i in e["ids"]]
        return s


def angle_slots(spec):
    out = []
    for vi, v in enumerate(spec["vertices"]):
        if v["kind"] == "SE2":
            out.append(("vertices", vi, "pose"))
    kinds = {v["id"]: v["kind"] for v in spec["vertices"]}
    for ei, e in enumerate(spec["edges"]):
        if e["type"] in ("odo", "numodo") and kinds[e["ids"][0]] == "SE2":
            out.append(("edges", ei, "z"))
        if e["type"] in ("lm", "numlm") and kinds[e["ids"][0]] == "SE2":
            out.append(("edges", ei, "off"))
    return out


class AngleShift(SQ.Rep):
    def __init__(self, slots, k):
        self.slots, self.k = slots, k
        self.name = "angle shift by %d x 2pi on %r" % (k, slots)

    def spec_map(self, spec):
        s = copy.deepcopy(spec)
        for a, i, f in self.slots:
            s[a][i][f][2] = s[a][i][f][2] + 2 * math.pi * self.k
        return s


def quat_slots(spec):
    out = []
    for vi, v in enumerate(spec["vertices"]):
        if v["kind"] == "SE3":
            out.append(("vertices", vi, "pose"))
    kinds = {v["id"]: v["kind"] for v in spec["vertices"]}
    for ei, e in enumerate(spec["edges"]):
        if e["type"] in ("odo", "numodo") and kinds[e["ids"][0]] == "SE3":
            out.append(("edges", ei, "z"))
        if e["type"] in ("lm", "numlm") and kinds[e["ids"][0]] == "SE3":
            out.append(("edges", ei, "off"))
    return out


class QuatSign(SQ.Rep):
    def __init__(self, slots, mask):
        self.slots, self.mask = slots, mask
        self.name = "quaternion negation pattern %s" % bin(mask)

    def spec_map(self, spec):
        s = copy.deepcopy(spec)
        for b, (a, i, f) in enumerate(self.slots):
            if (self.mask >> b) & 1:
                c = s[a][i][f]
                s[a][i][f] = c[:3] + [-x for x in c[3:]]
        return s


class Split(SQ.Rep):
    def __init__(self, mask):
        self.mask = mask
        self.name = "edge splitting pattern %s" % bin(mask)

    def spec_map(self, spec):
        s = copy.deepcopy(spec)
        es = []
        for k, e in enumerate(s["edges"]):
            if (self.mask >> k) & 1:
                h = copy.deepcopy(e)
                h["om"] = [[0.5 * x for x in r] for r in e["om"]]
                es += [h, copy.deepcopy(h)]
            else:
                es.append(e)
        s["edges"] = es
        return s


class Scale(SQ.Rep):
    def __init__(self, c):
        self.c = c
        self.chi_factor = c
        self.name = "information scaling by %g" % c

    def spec_map(self, spec):
        s = copy.deepcopy(spec)
        for e in s["edges"]:
            e["om"] = [[self.c * x for x in r] for r in e["om"]]
        return s


def reps_for(spec, tier):
    n, m = len(spec["vertices"]), len(spec["edges"])
    out = []
    if n <= 4:
        vps = [list(p) for p in itertools.permutations(range(n))][1:]
    else:
        vps = [list(range(n))[::-1], list(range(1, n)) + [0], [1, 0] + list(range(2, n))]
    out += [("vertex_perm", VertexPerm(p)) for p in vps]
    if m <= 4:
        eps = [list(p) for p in itertools.permutations(range(m))][1:]
    else:
        eps = [list(range(m))[::-1], list(range(1, m)) + [0], [1, 0] + list(range(2, m))]
    out += [("edge_perm", EdgePerm(p)) for p in eps]
    ids = [v["id"] for v in spec["vertices"]]
    if n <= 3:
        pool = ID_POOL[:4] if tier == "quick" else ID_POOL
        for tgt in itertools.permutations(pool, n):
            out.append(("relabel", Relabel(dict(zip(ids, tgt)))))
    else:
        out.append(("relabel", Relabel({i: ID_POOL[3] - 7 * k for k, i in enumerate(ids)})))
        out.append(("relabel", Relabel({i: -i - 1 for i in ids})))
    # small ids around zero, all below the number of vertices, some negative: k and n + k both occur (an index-like lookup would confuse them)
    tgt = [-1] + list(range(0, n - 2)) + [n - 1] if n >= 2 else [0]
    out.append(("relabel", Relabel(dict(zip(ids, tgt)))))
    out.append(("relabel", Relabel(dict(zip(ids, tgt[::-1])))))
    if n >= 5:
        tgt2 = ([n - 3, -(n - 3), 1, -1] + [n - 1, 0] + list(range(n + 5, n + 5 + max(0, n - 6))))[:n]
        if len(set(tgt2)) == n:
            out.append(("relabel", Relabel(dict(zip(ids, tgt2)))))
    asl = angle_slots(spec)
    if asl:
        for k in (1, -1, 2, -2, 3, -5):
            if len(asl) <= 8:
                for sl in asl:
                    out.append(("angle_2pi", AngleShift([sl], k)))
            out.append(("angle_2pi", AngleShift(asl, k)))
    qsl = quat_slots(spec)
    if qsl:
        if len(qsl) <= 8:
            for mask in range(1, 2 ** len(qsl)):
                out.append(("quat_sign", QuatSign(qsl, mask)))
        else:
            for b in range(len(qsl)):
                out.append(("quat_sign", QuatSign(qsl, 1 << b)))
            out.append(("quat_sign", QuatSign(qsl, 2 ** len(qsl) - 1)))
            out.append(("quat_sign", QuatSign(qsl, int("01" * len(qsl), 2) & (2 ** len(qsl) - 1))))
    if m <= 6:
        for mask in range(1, 2 ** m):
            out.append(("split", Split(mask)))
    else:
        out += [("split", Split(2 ** m - 1)), ("split", Split(1)), ("split", Split(int("10" * m, 2) & (2 ** m - 1)))]
    for c in (1e-12, 1e-6, 1e-3, 0.5, 2.0, 1e3):
        out.append(("scale", Scale(c)))
    return out


def graphs(tier, seed):
    out = []
    for ti, types in enumerate(F.type_multisets(3)):
        cands = F.candidate_edges(types, seed)
        for ms in F.edge_multisets(len(cands), 2):
            touched = set()
            for k in ms:
                touched.update(cands[k]["ids"])
            if touched != {0, 1, 2}:
                continue  # not connected to the fixed vertex: ill-posed, nothing to compare
            out.append(("shape", {"types": types, "ms": ms}))
    for kind in ("SE2", "SE3"):
        for fam in SF.FAMILIES[kind]:
            for n in ((3,) if tier == "quick" else (3, 6)):
                for nz, amp in (("zero", 0.0), ("sin", 0.02)):
                    out.append(("slam", {"kind": kind, "fam": fam, "n": n, "noise": nz, "nz": amp}))
    return out


def spec_of(gd, seed):
    typ, d = gd
    if typ == "shape":
        return F.make_spec(d["types"], seed, d["ms"], [True, False, False], None, None, None)
    dt, dr = (0.3, 0.2) if d["kind"] == "SE2" else (0.1, 0.05)
    spec, _ = SF.make(d["fam"], d["kind"], d["n"], "alt", d["noise"], dt, dr, d["nz"], seed)
    return spec


def chunks(tier, seed):
    gs = graphs(tier, seed)
    return [("g", k) for k in range(len(gs))] + [("io", k) for k in range(4)]


IO_IDMAPS = [
    lambda i: i,
    lambda i: 2**60 + 3 * i,
    lambda i: -(2**53) - 1 - 2 * i,
    lambda i: 9007199254740993 + i,
    lambda i: (-1) ** i * (1000 + 7 * i),
]


def _render_g2o_split(spec, idmap):
    """every edge written as TWO identical lines carrying half the information each (the same physical graph)."""
    from ..ref import g2o as RG

    full = _render_g2o(spec, idmap).splitlines()
    out = []
    k = 0
    for ln in full:
        if ln.startswith("EDGE"):
            e = spec["edges"][k]
            k += 1
            tag = "EDGE_SE2" if len(e["z"]) == 3 else "EDGE_SE3:QUAT"
            half = "%s %d %d %s %s" % (tag, idmap(e["ids"][0]), idmap(e["ids"][1]), " ".join(repr(float(x)) for x in e["z"]), " ".join(repr(0.5 * float(x)) for x in RG.upper_from_sym(e["om"])))
            out += [half, half]
        else:
            out.append(ln)
    return "\n".join(out) + "\n"


def _render_g2o(spec, idmap):
    """my own writer (repr of every double): the same physical graph as a .g2o text under an id relabeling."""
    from ..ref import g2o as RG

    out = []
    for v in spec["vertices"]:
        tag = {"SE2": "VERTEX_SE2", "SE3": "VERTEX_SE3:QUAT"}[v["kind"]]
        out.append("%s %d %s" % (tag, idmap(v["id"]), " ".join(repr(float(x)) for x in v["pose"])))
    for e in spec["edges"]:
        tag = "EDGE_SE2" if len(e["z"]) == 3 else "EDGE_SE3:QUAT"
        out.append("%s %d %d %s %s" % (tag, idmap(e["ids"][0]), idmap(e["ids"][1]), " ".join(repr(float(x)) for x in e["z"]), " ".join(repr(float(x)) for x in RG.upper_from_sym(e["om"]))))
    return "\n".join(out) + "\n"


def _eval_io(case):
    """relabeling seen through the loader: the same graph written with other ids loads to the same physical graph."""
    import os
    import shutil
    import tempfile

    import numpy as np

    from .. import gbuild as GB
    from .. import impl as I
    from ..ref import geom as G

    kind = ("SE2", "SE3")[case["k"] % 2]
    n = (3, 6)[case["k"] // 2]
    spec, _ = SF.make("ring", kind, n, "alt", "sin", 0.2 if kind == "SE2" else 0.1, 0.1 if kind == "SE2" else 0.05, 0.02, case["seed"])
    spec = {"vertices": [v for v in spec["vertices"] if v["id"] < 1000], "edges": [e for e in spec["edges"] if e["type"] == "odo"]}
    msgs = []
    tmp = tempfile.mkdtemp(prefix="vf-c08-")
    try:
        res = []
        for mi, idmap in enumerate(IO_IDMAPS):
            path = os.path.join(tmp, "g%d.g2o" % mi)
            with open(path, "w") as f:
                f.write(_render_g2o(spec, idmap))
            try:
                g = I.Graph.from_g2o(path)
            except Exception as ex:
                msgs.append("loading the graph written with id map #%d raised %s: %s" % (mi, type(ex).__name__, ex))
                continue
            with np.errstate(all="ignore"):
                c0 = float(g.calc_chi2())
            GB.optimize(g, tol=0.0, max_iter=2, fix_first_pose=True)
            res.append((mi, c0, {v.id: I.comps(v.pose) for v in I.graph_vertices(g)}, idmap))
        # edge splitting seen through the loader: two identical half-information lines per edge
        path = os.path.join(tmp, "split.g2o")
        with open(path, "w") as f:
            f.write(_render_g2o_split(spec, IO_IDMAPS[0]))
        try:
            g = I.Graph.from_g2o(path)
            with np.errstate(all="ignore"):
                c0 = float(g.calc_chi2())
            GB.optimize(g, tol=0.0, max_iter=2, fix_first_pose=True)
            res.append(("split", c0, {v.id: I.comps(v.pose) for v in I.graph_vertices(g)}, IO_IDMAPS[0]))
        except Exception as ex:
            msgs.append("loading the graph whose edges are written as two identical half-information lines raised %s" % type(ex).__name__)
        # quaternion signs / whole turns seen through the loader: the same graph written with negated quaternions (every vertex and
        # measurement, alternating ones) or with SE(2) angles shifted by whole turns
        import copy as _copy

        for pat in ("all", "odd", "meas_only"):
            sp2 = _copy.deepcopy(spec)
            for k, v in enumerate(sp2["vertices"]):
                if pat == "all" or (pat == "odd" and k % 2 == 1):
                    v["pose"] = v["pose"][:3] + [-x for x in v["pose"][3:]] if kind == "SE3" else v["pose"][:2] + [v["pose"][2] + 2 * math.pi * (1 + k % 3)]
            for k, e in enumerate(sp2["edges"]):
                if pat in ("all", "meas_only") or k % 2 == 1:
                    e["z"] = e["z"][:3] + [-x for x in e["z"][3:]] if kind == "SE3" else e["z"][:2] + [e["z"][2] - 2 * math.pi * (1 + k % 2)]
            path = os.path.join(tmp, "rep_%s.g2o" % pat)
            with open(path, "w") as f:
                f.write(_render_g2o(sp2, IO_IDMAPS[0]))
            try:
                g = I.Graph.from_g2o(path)
                with np.errstate(all="ignore"):
                    c0 = float(g.calc_chi2())
                GB.optimize(g, tol=0.0, max_iter=2, fix_first_pose=True)
                res.append(("negated quaternions / shifted angles (%s)" % pat, c0, {v.id: I.comps(v.pose) for v in I.graph_vertices(g)}, IO_IDMAPS[0]))
            except Exception as ex:
                msgs.append("loading the graph written with negated quaternions / shifted angles (%s) raised %s" % (pat, type(ex).__name__))
        if res:
            _, cA, pA, mA = res[0]
            for mi, c0, pp, idmap in res[1:]:
                if not abs(c0 - cA) <= 1e-11 * (1 + abs(cA)):
                    msgs.append("description #%s: chi2 of the loaded graph is %.17g, with plain ids / unsplit edges %.17g" % (mi, c0, cA))
                for v in spec["vertices"]:
                    a, b = pA.get(mA(v["id"])), pp.get(idmap(v["id"]))
                    if b is None:
                        msgs.append("description #%s: vertex %r missing after load" % (mi, idmap(v["id"])))
                        break
                    if G.phys_diff(kind, a, b) > 1e-10:
                        msgs.append("description #%s: after 2 iterations vertex %r differs from the plain graph by %.3g" % (mi, idmap(v["id"]), G.phys_diff(kind, a, b)))
                        break
    finally:
        shutil.rmtree(tmp, ignore_errors=True)
    return msgs, {"states": len(IO_IDMAPS), "squares": len(IO_IDMAPS) - 1, "ratio": 0.0, "classes": ["R:relabel_through_loader", "kind:" + kind], "rclass": "relabel_io"}


def run_chunk(chunk, tier, seed):
    typ, gi = chunk
    acc = Acc(ID, signature)
    if typ == "io":
        _do(acc, {"t": "io", "k": gi, "seed": seed})
        return acc
    gd = graphs(tier, seed)[gi]
    spec = spec_of(gd, seed)
    steps = 5 if (tier == "thorough" or gd[0] == "slam") else 1
    for ri, (cls, rep) in enumerate(reps_for(spec, tier)):
        _do(acc, {"graph": list(gd), "rep": ri, "seed": seed, "tier": tier, "steps": steps})
    return acc


def _do(acc, case):
    acc.evals += 1
    msgs, info = _eval(case)
    acc.states += info.get("states", 0)
    acc.transitions += 2 * info.get("squares", 0)
    acc.traces += info.get("squares", 0)
    if info.get("excluded"):
        acc.exclude("trajectory ended at an ill-conditioned state", info["excluded"])
    for c in info.get("classes", ()):
        acc.cls(c)
    if info.get("squares", 0):
        acc.nontrivial += 1
    acc.ratio(info.get("ratio", 0.0), case if info.get("ratio", 0) > 1e-2 else None)
    acc.outcome("%s squares=%d" % (info.get("rclass"), info.get("squares", 0)))
    if msgs:
        acc.violation(case, msgs)
    acc.sample(case, 1)


def eval_case(case):
    return _eval(case)[0]


def signature(case, msgs):
    _, info = _eval(case)
    return {"rclass": info.get("rclass"), "family": (case.get("graph") or ["io"])[0]}


def _eval(case):
    try:
        if case.get("t") == "io":
            return _eval_io(case)
        gd = (case["graph"][0], case["graph"][1])
        spec = spec_of(gd, case["seed"])
        cls, rep = reps_for(spec, case["tier"])[case["rep"]]
        msgs, info = SQ.run(spec, rep, case["steps"], direct=(gd[0] == "slam"))
        if cls == "relabel" and not msgs:
            # ids must not decide which vertex fix_first_pose anchors
            m2, i2 = SQ.run(spec, rep, min(case["steps"], 1), direct=False, ffp=True)
            msgs += ["[fix_first_pose=True, no vertex pre-marked] " + m for m in m2]
            info["squares"] += i2["squares"]
            info["states"] += i2["states"]
            info["ratio"] = max(info["ratio"], i2["ratio"])
        classes = {"R:" + cls, "slam_family" if gd[0] == "slam" else "shape_family"}
        for v in spec["vertices"]:
            classes.add("kind:" + v["kind"])
        if any(e["type"] in ("prior", "tern") for e in spec["edges"]):
            classes.add("custom_edges")
        if any(any(e["om"][i][j] != 0.0 for i in range(len(e["om"])) for j in range(len(e["om"])) if i != j) for e in spec["edges"]):
            classes.add("cross_term_information")
        info["classes"] = sorted(classes)
        info["rclass"] = cls
        if msgs:
            msgs = ["[%s] %s" % (rep.name, m) for m in msgs]
        return msgs, info
    except Exception as ex:
        import traceback

        return ["raised %s: %s | %s" % (type(ex).__name__, ex, traceback.format_exc()[-600:])], {"ratio": float("inf")}
