"""C13 - .g2o export followed by import is lossless (engine E1 over per-slot alphabets + E2 export/import cycles)."""
import copy
import itertools
import math
import os
import shutil
import tempfile

import numpy as np

from .. import alphabets as A
from .. import g2oio
from .. import gbuild as GB
from .. import impl as I
from ..ref import g2o as RG
from ..ref import geom as G
from ..runner import Acc

ID = "C13"

META = {
    "rule": "(slots) 2-D and 3-D base graphs (3 vertices, 4 edges incl. landmark edges with rotated, shared/unshared offset parameters): every numeric slot x every extreme "
    "scalar {0,-0.0,0.1,1/3,-2.5,1e-300,1e300,5e-324,123456789012345678,pi,-pi,nextafter(-pi)} one at a time, every quaternion slot x every unit quaternion of the alphabet (w<0, w=0, "
    "Hurwitz); (shapes) every multiset of <=3 edges from the 4 candidate edges of each world x every vertex-list permutation x edge-list rotations x id maps "
    "(negative, sparse, huge) + mixed 2-D/3-D graphs; (omega) every edge kind x information alphabet; (refuse) inexpressible content (R^n odometry, R^n->R^n landmark, SE(2) landmark "
    "with non-identity offset) alone and at every position among expressible edges must raise; (edit) export, edit every single numeric slot IN PLACE, export again: the second file must show the edit; (cycles) 1..5 export/import cycles of every shape graph, each compared with the ORIGINAL. "
    "Oracles: structure, every number bitwise (4 ulp for wrapped angles / renormalised measurement quaternions), chi2, and the file tokens re-parsed by the reference tokenizer. "
    "non-trivial = graph has at least one edge or an extreme scalar",
    "assumptions": ["real temp files in a private mkdtemp directory", "an SE(3) landmark edge whose offset is not registered in the graph's parameter table is outside the property's domain", "custom edges (no to_g2o) are outside the property's domain"],
    "required_classes": ["edit_between_exports", "slots2d", "slots3d", "quat_slot", "w_negative_measurement", "shape", "ids_special", "vertex_order_permuted", "omega", "refuse", "refuse_unregistered", "line_count:1", "line_count:1001", "graph_without_parameters", "same_id_for_2d_and_3d_parameter", "cycles", "offset_rotated", "shared_param", "mixed_world", "cross_term_information"],
    "bounds": {"quick": "all slot substitutions; shapes with <=3 edges; 3 cycles", "thorough": "same + pairs of extreme scalars on vertex slots; 5 cycles"},
}

PI = math.pi
SCALARS = [0.0, -0.0, 0.1, 1.0 / 3.0, -2.5, 1e-300, 1e300, 5e-324, 123456789012345678.0, PI, -PI, A.ANG_PLUS_PI_SOURCE]
Q1 = A.unit([0.1, -0.2, 0.3, 0.9])
QNEG = [-x for x in A.unit([0.3, 0.1, -0.2, 0.9])]


def _upper_spd(n, k0):
    """SPD with all distinct entries (cross terms)."""
    M = A.spd(n, 0, "c13-%d" % k0)
    return M


def base_spec(world, seed=0):
    if world == "2d":
        vs = [
            {"id": 0, "kind": "SE2", "pose": [0.3, -0.8, 2.9]},
            {"id": 1, "kind": "SE2", "pose": [-1.1, 0.4, -2.2]},
            {"id": 2, "kind": "R2", "pose": [2.0, 1.5]},
        ]
        es = [
            {"type": "odo", "ids": [0, 1], "z": [0.9, -0.2, 1.3], "om": _upper_spd(3, 1)},
            {"type": "odo", "ids": [1, 0], "z": [-0.5, 0.7, -3.0], "om": _upper_spd(3, 2)},
            {"type": "lm", "ids": [0, 2], "z": [0.4, 1.1], "off": [0.0, 0.0, 0.0], "off_id": 0, "om": _upper_spd(2, 3)},
            {"type": "lm", "ids": [1, 2], "z": [-0.3, 0.2], "off": [0.0, 0.0, 0.0], "off_id": 0, "om": _upper_spd(2, 4)},
        ]
        params = [{"tag": "PARAMS_SE2OFFSET", "id": 0, "value": [0.0, 0.0, 0.0]}]
    else:
        pa = [0.1, 0.2, -0.1] + A.unit([0.3, -0.1, 0.2, 0.9])
        pb = [-0.3, 0.0, 0.6, -0.5, 0.5, -0.5, -0.5]
        vs = [
            {"id": 0, "kind": "SE3", "pose": [0.5, -0.4, 1.2] + Q1},
            {"id": 1, "kind": "SE3", "pose": [-0.7, 0.9, 0.3] + A.unit([0.6, -0.3, 0.5, -0.2])},
            {"id": 2, "kind": "R3", "pose": [1.0, -2.0, 0.5]},
        ]
        es = [
            {"type": "odo", "ids": [0, 1], "z": [0.2, 0.1, -0.4] + A.unit([0.2, 0.1, -0.3, 0.9]), "om": _upper_spd(6, 5)},
            {"type": "odo", "ids": [1, 0], "z": [0.3, -0.6, 0.2] + QNEG, "om": _upper_spd(6, 6)},
            {"type": "lm", "ids": [0, 2], "z": [0.5, 0.5, -1.0], "off": pa, "off_id": 3, "om": _upper_spd(3, 7)},
            {"type": "lm", "ids": [1, 2], "z": [-0.2, 0.3, 0.8], "off": pb, "off_id": 5, "om": _upper_spd(3, 8)},
        ]
        params = [{"tag": "PARAMS_SE3OFFSET", "id": 3, "value": pa}, {"tag": "PARAMS_SE3OFFSET", "id": 5, "value": pb}]
    return {"vertices": vs, "edges": es, "params": params}


def build(spec):
    from graphslam.g2o_parameters import G2OParameterSE2Offset, G2OParameterSE3Offset

    g, verts, edges = GB.build(spec)
    params = {}
    for p in spec.get("params", []):
        key = (p["tag"], p["id"])
        if p["tag"] == "PARAMS_SE2OFFSET":
            params[key] = G2OParameterSE2Offset(key, I.mk_pose("SE2", p["value"]))
        else:
            params[key] = G2OParameterSE3Offset(key, I.mk_pose("SE3", p["value"]))
    I.set_graph_params(g, params)
    return g, verts, edges


# --------------------------------------------------------------------------------- slots
def slots(spec):
    """(path, is_quaternion_block, kind) for every numeric slot; quaternion blocks are substituted as a whole."""
    out = []
    for vi, v in enumerate(spec["vertices"]):
        d = 3 if v["kind"] == "SE3" else len(v["pose"])
        for c in range(d):
            out.append((["vertices", vi, "pose", c], False))
        if v["kind"] == "SE3":
            out.append((["vertices", vi, "pose"], True))
    for ei, e in enumerate(spec["edges"]):
        zk = len(e["z"])
        d = 3 if zk == 7 else zk
        for c in range(d):
            out.append((["edges", ei, "z", c], False))
        if zk == 7:
            out.append((["edges", ei, "z"], True))
        n = len(e["om"])
        for r in range(n):
            for c in range(r, n):
                out.append((["edges", ei, "om", r, c], False))
    for pi_, p in enumerate(spec.get("params", [])):
        d = 3 if len(p["value"]) == 7 else 3
        for c in range(d):
            out.append((["params", pi_, "value", c], False))
        if len(p["value"]) == 7:
            out.append((["params", pi_, "value"], True))
    return out


def _setpath(spec, path, val):
    d = spec
    for k in path[:-1]:
        d = d[k]
    d[path[-1]] = val


def _getpath(spec, path):
    d = spec
    for k in path:
        d = d[k]
    return d


def substitute(spec, path, is_q, val):
    s = copy.deepcopy(spec)
    if is_q:
        cur = _getpath(s, path)
        _setpath(s, path, cur[:3] + list(val))
    else:
        _setpath(s, path, val)
        if path[0] == "edges" and path[2] == "om":  # keep the information symmetric
            _, ei, _, r, c = path
            s["edges"][ei]["om"][c][r] = val
    # a landmark edge's offset IS the registered parameter
    for e in s["edges"]:
        if e["type"] == "lm" and len(e["off"]) == 7:
            for p in s["params"]:
                if p["id"] == e["off_id"] and p["tag"] == "PARAMS_SE3OFFSET":
                    e["off"] = list(p["value"])
    return s


CAND = {"2d": 4, "3d": 4}
ID_MAPS = [None, {0: 7, 1: -5, 2: 1000}, {0: 2**40, 1: 3, 2: 2**63 - 1}]


def shape_spec(world, ms, vorder, erot, idmap, shared=False):
    b = base_spec(world)
    es = [copy.deepcopy(b["edges"][k]) for k in ms]
    if erot and es:
        es = es[erot % len(es) :] + es[: erot % len(es)]
    if shared and world == "3d":
        for e in es:
            if e["type"] == "lm":
                e["off_id"] = 3
                e["off"] = list(b["params"][0]["value"])
    vs = [copy.deepcopy(b["vertices"][k]) for k in vorder]
    if idmap:
        for v in vs:
            v["id"] = idmap[v["id"]]
        for e in es:
            e["ids"] = [idmap[i] for i in e["ids"]]
    return {"vertices": vs, "edges": es, "params": b["params"]}


def mixed_spec(ms2, ms3):
    a, b = base_spec("2d"), base_spec("3d")
    vs = a["vertices"] + [dict(v, id=v["id"] + 10) for v in b["vertices"]]
    es = [copy.deepcopy(a["edges"][k]) for k in ms2]
    for k in ms3:
        e = copy.deepcopy(b["edges"][k])
        e["ids"] = [i + 10 for i in e["ids"]]
        es.append(e)
    # interleave 2-D and 3-D elements
    vs = [vs[i] for i in (0, 3, 1, 4, 2, 5)]
    return {"vertices": vs, "edges": es[::-1], "params": a["params"] + b["params"]}


REFUSE = [
    ("R2 odometry", {"vertices": [{"id": 0, "kind": "R2", "pose": [1.0, 2.0]}, {"id": 1, "kind": "R2", "pose": [3.0, 4.0]}], "edge": {"type": "odo", "ids": [0, 1], "z": [0.5, 0.5], "om": [[1.0, 0.0], [0.0, 1.0]]}}),
    ("R3 odometry", {"vertices": [{"id": 0, "kind": "R3", "pose": [1.0, 2.0, 0.0]}, {"id": 1, "kind": "R3", "pose": [3.0, 4.0, 1.0]}], "edge": {"type": "odo", "ids": [0, 1], "z": [0.5, 0.5, 0.1], "om": [[1.0, 0.0, 0.0], [0.0, 1.0, 0.0], [0.0, 0.0, 1.0]]}}),
    ("R2->R2 landmark", {"vertices": [{"id": 0, "kind": "R2", "pose": [1.0, 2.0]}, {"id": 1, "kind": "R2", "pose": [3.0, 4.0]}], "edge": {"type": "lm", "ids": [0, 1], "z": [0.5, 0.5], "off": [0.1, 0.2], "om": [[1.0, 0.0], [0.0, 1.0]]}}),
    ("R3->R3 landmark", {"vertices": [{"id": 0, "kind": "R3", "pose": [1.0, 2.0, 0.0]}, {"id": 1, "kind": "R3", "pose": [3.0, 4.0, 1.0]}], "edge": {"type": "lm", "ids": [0, 1], "z": [0.5, 0.5, 0.1], "off": [0.0, 0.0, 0.0], "om": [[1.0, 0.0, 0.0], [0.0, 1.0, 0.0], [0.0, 0.0, 1.0]]}}),
]
REFUSE.append(("R2->R2 landmark with a zero offset", {"vertices": [{"id": 0, "kind": "R2", "pose": [1.0, 2.0]}, {"id": 1, "kind": "R2", "pose": [3.0, 4.0]}], "edge": {"type": "lm", "ids": [0, 1], "z": [0.5, 0.5], "off": [0.0, 0.0], "om": [[1.0, 0.0], [0.0, 1.0]]}}))
REFUSE.append(("R3->R3 landmark with an offset", {"vertices": [{"id": 0, "kind": "R3", "pose": [1.0, 2.0, 0.0]}, {"id": 1, "kind": "R3", "pose": [3.0, 4.0, 1.0]}], "edge": {"type": "lm", "ids": [0, 1], "z": [0.5, 0.5, 0.1], "off": [0.25, 0.0, -0.5], "om": [[1.0, 0.0, 0.0], [0.0, 1.0, 0.0], [0.0, 0.0, 1.0]]}}))
SE2_OFFSETS = [[0.5, -0.25, 0.7], [0.5, 0.0, 0.0], [0.0, 0.0, 0.7], [0.0, 5e-324, 0.0], [0.0, 0.0, -1e-9], [1e300, 0.0, 0.0]]


def chunks(tier, seed):
    out = [("slots", "2d", 0), ("slots", "3d", 0), ("slots", "3d", 1), ("slots", "3d", 2), ("slots", "3d", 3), ("quat", "3d", 0), ("omega", "2d", 0), ("omega", "3d", 0), ("refuse", None, 0), ("mixed", None, 0), ("edit", None, 0)]
    for w in ("2d", "3d"):
        for vo in range(6):
            out.append(("shape", w, vo))
    return out


def _multisets(n, m):
    yield []
    for k in range(1, m + 1):
        for ms in itertools.combinations_with_replacement(range(n), k):
            yield list(ms)


def run_chunk(chunk, tier, seed):
    typ, w, k = chunk
    acc = Acc(ID, signature)
    tmp = tempfile.mkdtemp(prefix="vf-c13-")
    ctx = {"tmp": tmp}
    try:
        if typ == "slots":
            b = base_spec(w)
            sl = [s for s in slots(b) if not s[1]]
            part, parts = (k, 4) if w == "3d" else (0, 1)
            for n, (path, _) in enumerate(sl):
                if n % parts != part:
                    continue
                for sc in SCALARS:
                    _do(acc, {"t": "slots", "world": w, "path": path, "q": False, "val": sc, "cycles": 1}, ctx)
                if tier == "thorough" and path[0] == "vertices":
                    for s1, s2 in itertools.product(SCALARS, repeat=2):
                        _do(acc, {"t": "slots", "world": w, "path": path, "q": False, "val": s1, "path2": sl[(n + 1) % len(sl)][0], "val2": s2, "cycles": 1}, ctx)
        elif typ == "quat":
            b = base_spec(w)
            for path, isq in slots(b):
                if isq:
                    for q in A.Q("thorough", seed):
                        _do(acc, {"t": "slots", "world": w, "path": path, "q": True, "val": q, "cycles": 1}, ctx)
        elif typ == "omega":
            b = base_spec(w)
            for ei, e in enumerate(b["edges"]):
                n = len(e["om"])
                oms = A.OMEGA(n, "thorough", seed) + [("distinct", [[float(1 + min(i, j) * n + max(i, j)) for j in range(n)] for i in range(n)]), ("1e300", [[1e300 if i == j else 1e299 for j in range(n)] for i in range(n)]), ("tiny", [[5e-324 if i == j else 0.0 for j in range(n)] for i in range(n)])]
                for name, om in oms:
                    _do(acc, {"t": "omega", "world": w, "edge": ei, "om": om, "name": name, "cycles": 1}, ctx)
        elif typ == "shape":
            vorder = list(itertools.permutations(range(3)))[k]
            cyc = 3 if tier == "quick" else 5
            for ms in _multisets(4, 3):
                for erot in range(max(1, len(ms))):
                    for im in range(len(ID_MAPS)):
                        for shared in ((False, True) if w == "3d" and any(x >= 2 for x in ms) else (False,)):
                            _do(acc, {"t": "shape", "world": w, "ms": ms, "vorder": list(vorder), "erot": erot, "idmap": im, "shared": shared, "cycles": cyc}, ctx)
                    if not any(x >= 2 for x in ms) and erot == 0:
                        # a graph that carries NO offset parameters at all, written over whatever the path held before
                        _do(acc, {"t": "shape", "world": w, "ms": ms, "vorder": list(vorder), "erot": erot, "idmap": 0, "shared": False, "cycles": cyc, "noparams": True}, ctx)
        elif typ == "edit":
            # history: export once, edit an array IN PLACE (pose / measurement / information / offset parameter), export again
            for world in ("2d", "3d"):
                b = base_spec(world)
                for path, isq in slots(b):
                    if isq:
                        continue
                    _do(acc, {"t": "edit", "world": world, "path": path, "cycles": 1}, ctx)
        elif typ == "mixed":
            # sizes: a graph that is exported as exactly one line, and graphs of 1000 / 1001 / 1002 lines
            for kind in ("SE2", "SE3", "R2", "R3"):
                _do(acc, {"t": "size", "kind": kind, "nv": 1, "ne": 0, "cycles": 2}, ctx)
            for nv, ne in ((400, 600), (400, 601), (400, 602)):
                _do(acc, {"t": "size", "kind": "SE2", "nv": nv, "ne": ne, "cycles": 1}, ctx)
            for ms2 in _multisets(4, 2):
                for ms3 in _multisets(4, 2):
                    _do(acc, {"t": "mixed", "ms2": ms2, "ms3": ms3, "cycles": 2}, ctx)
                    _do(acc, {"t": "mixed", "ms2": ms2, "ms3": ms3, "cycles": 2, "same_param_id": True}, ctx)
        elif typ == "refuse":
            for ri in range(len(REFUSE)):
                for pos in range(3):
                    _do(acc, {"t": "refuse", "which": ri, "pos": pos}, ctx)
            for oi in range(len(SE2_OFFSETS)):
                for pos in range(3):
                    for ei in (2, 3):
                        _do(acc, {"t": "refuse", "which": "se2off", "off": SE2_OFFSETS[oi], "pos": pos, "edge": ei}, ctx)
            # an SE(3) landmark edge whose offset is NOT among the graph's registered offset parameters
            for ei in (2, 3):
                for pos in range(3):
                    for reg in ("none", "other_id"):
                        _do(acc, {"t": "refuse", "which": "se3unreg", "pos": pos, "edge": ei, "reg": reg}, ctx)
    finally:
        shutil.rmtree(tmp, ignore_errors=True)
    return acc


def _do(acc, case, ctx):
    acc.evals += 1
    acc.states += 1
    msgs, info = _eval(case, ctx)
    acc.transitions += info.get("ops", 1)
    acc.traces += info.get("parsed", 0)
    for c in info.get("classes", ()):
        acc.cls(c)
    acc.outcome(info.get("outcome", "?"))
    if info.get("nontrivial", True):
        acc.nontrivial += 1
    acc.ratio(info.get("ratio", 0.0))
    if msgs:
        acc.violation(case, msgs)
    acc.sample(case, 1)


def eval_case(case):
    tmp = tempfile.mkdtemp(prefix="vf-c13-")
    try:
        return _eval(case, {"tmp": tmp})[0]
    finally:
        shutil.rmtree(tmp, ignore_errors=True)


def signature(case, msgs):
    return {"t": case.get("t"), "which": str(case.get("which")), "chi2_only": bool(msgs) and all("chi2" in m or m.startswith("file was") for m in msgs)}


def spec_of(case):
    t = case["t"]
    if t == "slots":
        b = base_spec(case["world"])
        s = substitute(b, case["path"], case["q"], case["val"])
        if "path2" in case:
            s = substitute(s, case["path2"], False, case["val2"])
        return s
    if t == "omega":
        b = base_spec(case["world"])
        b["edges"][case["edge"]]["om"] = case["om"]
        return b
    if t == "shape":
        sp = shape_spec(case["world"], case["ms"], case["vorder"], case["erot"], ID_MAPS[case["idmap"]], case.get("shared", False))
        if case.get("noparams"):
            sp["params"] = []
        return sp
    if t == "size":
        k = case["kind"]
        base = {"SE2": [0.5, -0.25, 0.75], "SE3": [0.5, -0.25, 0.75] + Q1, "R2": [0.5, -0.25], "R3": [0.5, -0.25, 0.75]}[k]
        d = 2 if k in ("SE2", "R2") else 3
        vs = [{"id": i, "kind": k, "pose": [x + 0.125 * i for x in base[:d]] + base[d:]} for i in range(case["nv"])]
        es = [{"type": "odo", "ids": [j % case["nv"], (7 * j + 1) % case["nv"] if (7 * j + 1) % case["nv"] != j % case["nv"] else (j + 1) % case["nv"]], "z": [0.01 * j, -0.5, 0.25], "om": _upper_spd(3, 1)} for j in range(case["ne"])]
        return {"vertices": vs, "edges": es, "params": []}
    if t == "mixed":
        sp = mixed_spec(case["ms2"], case["ms3"])
        if case.get("same_param_id"):
            # the 2-D and a 3-D offset parameter carry the SAME id (ids are per parameter type)
            for p_ in sp["params"]:
                if p_["tag"] == "PARAMS_SE3OFFSET" and p_["id"] == 3:
                    p_["id"] = 0
            for e in sp["edges"]:
                if e["type"] == "lm" and len(e["off"]) == 7 and e.get("off_id") == 3:
                    e["off_id"] = 0
        return sp
    raise ValueError(t)


def _eval_edit(case, ctx):
    msgs = []
    spec = base_spec(case["world"])
    g, verts, edges = build(spec)
    path = os.path.join(ctx["tmp"], "e.g2o")
    g.to_g2o(path)  # first export (may leave formatted text behind)
    p = case["path"]
    # locate the live array and edit ONE element in place
    if p[0] == "vertices":
        arr, idx = np.asarray(verts[p[1]].pose), (p[3],)
    elif p[0] == "edges" and p[2] == "z":
        arr, idx = np.asarray(edges[p[1]].estimate), (p[3],)
    elif p[0] == "edges" and p[2] == "om":
        arr, idx = np.asarray(edges[p[1]].information), (p[3], p[4])
    else:
        key = (spec["params"][p[1]]["tag"], spec["params"][p[1]]["id"])
        arr, idx = np.asarray(I.graph_params(g)[key].value), (p[3],)
        # the landmark edges that reference this parameter share its value by construction of the domain
        for e in edges:
            if isinstance(e, I.EdgeLandmark) and e.offset_id == key[1] and key[0] == "PARAMS_SE3OFFSET":
                np.asarray(e.offset)[idx] = np.asarray(e.offset)[idx] * 0.5 + 0.125
    arr[idx] = arr[idx] * 0.5 + 0.125
    if p[0] == "edges" and p[2] == "om" and p[3] != p[4]:
        arr[p[4], p[3]] = arr[idx]
    want = g2oio.describe_graph(g)
    g.to_g2o(path)
    with open(path) as f:
        text = f.read()
    ref = _ref_as_desc(RG.parse(text))
    m2 = []
    g2oio.compare(ref, _orig_for_writer(want), m2, quat_norm_est=False)
    msgs.extend("second export after an in-place edit of %r: file says: %s" % (p, m) for m in m2)
    back = g2oio.describe_graph(I.Graph.from_g2o(path))
    m3 = []
    g2oio.compare(back, _orig_for_reader(want), m3)
    msgs.extend("second export after an in-place edit of %r, re-import: %s" % (p, m) for m in m3)
    return msgs, {"classes": ["edit_between_exports"], "ops": 3, "parsed": 1, "outcome": "edit"}


def _eval(case, ctx):
    try:
        if case["t"] == "refuse":
            return _eval_refuse(case, ctx)
        if case["t"] == "edit":
            return _eval_edit(case, ctx)
        return _eval_roundtrip(case, ctx)
    except Exception as ex:
        import traceback

        return ["raised %s: %s | %s" % (type(ex).__name__, ex, traceback.format_exc()[-600:])], {"outcome": "exception"}


def _desc_of_spec_graph(g):
    return g2oio.describe_graph(g)


FOREIGN = (
    "PARAMS_SE3OFFSET 3 9.0 8.0 7.0 0.0 0.0 0.0 1.0\n"
    "PARAMS_SE3OFFSET 5 -1.0 -2.0 -3.0 0.0 0.0 1.0 0.0\n"
    "PARAMS_SE2OFFSET 0 0.0 0.0 0.0\n"
    "VERTEX_SE3:QUAT 0 0.0 0.0 0.0 0.0 0.0 0.0 1.0\n"
    "VERTEX_TRACKXYZ 1 1.0 2.0 3.0\n"
    "EDGE_SE3_TRACKXYZ 0 1 3 0.1 0.2 0.3 1.0 0.0 0.0 1.0 0.0 1.0\n"
    "EDGE_SE3_TRACKXYZ 0 1 5 0.3 0.2 0.1 1.0 0.0 0.0 1.0 0.0 1.0\n"
)


def _foreign_load(ctx):
    """another, unrelated file (same offset-parameter ids, other values) is imported in between: graphs already loaded must not notice."""
    fp = os.path.join(ctx["tmp"], "foreign.g2o")
    if not os.path.exists(fp):
        with open(fp, "w") as f:
            f.write(FOREIGN)
    return I.Graph.from_g2o(fp)


def _eval_roundtrip(case, ctx):
    msgs = []
    spec = spec_of(case)
    classes = []
    t = case["t"]
    if t == "slots":
        classes.append("slots" + case["world"])
        if case["q"]:
            classes.append("quat_slot")
    elif t == "shape":
        classes.append("shape")
        if case["idmap"]:
            classes.append("ids_special")
        if case["vorder"] != [0, 1, 2]:
            classes.append("vertex_order_permuted")
        if case.get("shared"):
            classes.append("shared_param")
        if case.get("noparams"):
            classes.append("graph_without_parameters")
    elif t == "size":
        classes.append("line_count:%d" % (case["nv"] + case["ne"]))
    elif t == "mixed":
        classes.append("mixed_world")
        if case.get("same_param_id"):
            classes.append("same_id_for_2d_and_3d_parameter")
    elif t == "omega":
        classes.append("omega")
    for e in spec["edges"]:
        if e["type"] == "odo" and len(e["z"]) == 7 and e["z"][6] < 0:
            classes.append("w_negative_measurement")
        if e["type"] == "lm" and len(e["off"]) == 7 and abs(e["off"][6]) != 1.0:
            classes.append("offset_rotated")
        om = e["om"]
        if any(om[i][j] != 0.0 for i in range(len(om)) for j in range(len(om)) if i != j):
            classes.append("cross_term_information")
    g, verts, edges = build(spec)
    orig = g2oio.describe_graph(g)
    with np.errstate(all="ignore"):
        chi0 = float(g.calc_chi2()) if edges else 0.0
    path = os.path.join(ctx["tmp"], "g.g2o")
    # history carried by every case: the path already holds an older, unrelated export (the new export replaces it completely)
    with open(path, "w") as f:
        f.write(FOREIGN)
    cur = g
    ops = 0
    parsed = 0
    for cyc in range(1, case.get("cycles", 1) + 1):
        if cyc == 1:
            # history: an earlier export attempt of this very graph failed (unwritable path) and the caller caught the error
            try:
                cur.to_g2o(os.path.join(ctx["tmp"], "no-such-directory", "x.g2o"))
            except Exception:
                pass
        cur.to_g2o(path)
        ops += 1
        if cyc == 1:
            # writer alone: the tokens of the file are exactly the stored doubles, in the documented layout
            with open(path) as f:
                text = f.read()
            ref = RG.parse(text)
            parsed += 1
            if ref["unsupported"]:
                msgs.append("exported file contains lines outside the vocabulary: %r" % [text.splitlines()[i] for i in ref["unsupported"]])
            refd = _ref_as_desc(ref)
            g2oio.compare(refd, _orig_for_writer(orig), msgs2 := [], quat_norm_est=False)
            msgs.extend("file text (independent tokenizer): " + m for m in msgs2)
            classes.append("cycles")
        nxt = I.Graph.from_g2o(path)
        ops += 1
        keep_alive = _foreign_load(ctx)
        got = g2oio.describe_graph(nxt)
        m3 = []
        g2oio.compare(got, _orig_for_reader(orig), m3, quat_norm_est=True)
        msgs.extend("after %d export/import cycle(s): %s" % (cyc, m) for m in m3)
        with np.errstate(all="ignore"):
            chi = float(nxt.calc_chi2()) if edges else 0.0
        if math.isfinite(chi0) and math.isfinite(chi):
            if not abs(chi - chi0) <= 1e-12 * (1.0 + abs(chi0)):
                msgs.append("after %d cycle(s): chi2 %.17g differs from the original chi2 %.17g" % (cyc, chi, chi0))
        elif math.isfinite(chi0) != math.isfinite(chi) and not (math.isnan(chi0) and math.isnan(chi)):
            if not (math.isinf(chi0) or math.isnan(chi0)) or not (math.isinf(chi) or math.isnan(chi)):
                msgs.append("after %d cycle(s): chi2 %r vs original %r" % (cyc, chi, chi0))
        cur = nxt
        if msgs:
            break
    if msgs:
        try:
            with open(path) as f:
                msgs.append("file was:\n" + f.read()[:1500])
        except OSError:
            pass
    return msgs, {"classes": classes, "ops": ops, "parsed": parsed, "outcome": "roundtrip", "nontrivial": bool(spec["edges"]) or t == "slots"}


def _ref_as_desc(ref):
    out = {"vertices": ref["vertices"], "edges": [], "params": ref["params"]}
    for e in ref["edges"]:
        d = dict(e)
        d["est_kind"] = e["est_kind"]
        if e["type"] == "lm":
            d["off_kind"] = "SE2" if e["tag"] == "EDGE_SE2_XY" else "SE3"
        out["edges"].append(d)
    return out


def _orig_for_writer(orig):
    """what the file must say about the original graph."""
    o = copy.deepcopy(orig)
    for e in o["edges"]:
        if e["type"] == "lm" and e.get("off_kind") == "SE2":
            e["off_id"] = 0  # the format has no id for 2-D offsets
    return o


def _orig_for_reader(orig):
    return _orig_for_writer(orig)


def _eval_unregistered(case, ctx):
    """the file can carry an SE(3) landmark offset only through a registered PARAMS_SE3OFFSET of the edge's offset id.  If that
    parameter is missing (or says something else) the cycle has to fail with an error somewhere, or give back the same graph."""
    b = base_spec("3d")
    e = copy.deepcopy(b["edges"][case["edge"]])
    es = [b["edges"][0], b["edges"][1]]
    es.insert(case["pos"], e)
    if case["reg"] == "none":
        params = []
    else:
        params = [dict(p, id=p["id"] + 10) for p in b["params"]]
    spec = {"vertices": b["vertices"], "edges": es, "params": params}
    g, verts, edges = build(spec)
    want = g2oio.describe_graph(g)
    chi0 = float(g.calc_chi2())
    path = os.path.join(ctx["tmp"], "u.g2o")
    try:
        g.to_g2o(path)
        back_g = I.Graph.from_g2o(path)
    except Exception as ex:
        return [], {"classes": ["refuse", "refuse_unregistered"], "outcome": "refused:" + type(ex).__name__, "ops": 2}
    msgs = []
    back = g2oio.describe_graph(back_g)
    for be, we in zip(back["edges"], want["edges"]):
        if be.get("type") == "lm" and we.get("type") == "lm":
            if G.phys_diff("SE3", list(be["off"]), list(we["off"])) > 1e-12:
                msgs.append("SE(3) landmark edge with an offset that is not a registered parameter (%s): export + import succeeded but the offset came back as %r instead of %r" % (case["reg"], be["off"], we["off"]))
    chi1 = float(back_g.calc_chi2())
    if not abs(chi1 - chi0) <= 1e-9 * (1.0 + abs(chi0)):
        msgs.append("SE(3) landmark edge with an offset that is not a registered parameter (%s): chi2 %.17g after the cycle, %.17g before" % (case["reg"], chi1, chi0))
    return msgs, {"classes": ["refuse", "refuse_unregistered"], "outcome": "written", "ops": 2}


def _eval_refuse(case, ctx):
    msgs = []
    if case["which"] == "se3unreg":
        return _eval_unregistered(case, ctx)
    b = base_spec("2d")
    if case["which"] == "se2off":
        e = copy.deepcopy(b["edges"][case["edge"]])
        e["off"] = list(case["off"])
        others = [b["edges"][0], b["edges"][1]]
        vs = b["vertices"]
        label = "SE(2) landmark edge with offset %r" % (case["off"],)
    else:
        label, r = REFUSE[case["which"]]
        e = copy.deepcopy(r["edge"])
        e["ids"] = [i + 20 for i in e["ids"]]
        vs = b["vertices"] + [dict(v, id=v["id"] + 20) for v in r["vertices"]]
        others = [b["edges"][0], b["edges"][2]]
    es = list(others)
    es.insert(case["pos"], e)
    spec = {"vertices": vs, "edges": es, "params": b["params"]}
    g, verts, edges = build(spec)
    path = os.path.join(ctx["tmp"], "r.g2o")
    try:
        g.to_g2o(path)
    except Exception as ex:
        return [], {"classes": ["refuse"], "outcome": "refused:" + type(ex).__name__, "ops": 1}
    # written: then it must read back as the same graph (it cannot)
    try:
        back = g2oio.describe_graph(I.Graph.from_g2o(path))
        m = []
        g2oio.compare(back, _orig_for_writer(g2oio.describe_graph(g)), m)
    except Exception as ex:
        m = ["re-import raised %s" % type(ex).__name__]
    if m:
        msgs.append("%s (position %d of the edge list) cannot be expressed in .g2o but to_g2o wrote a file without error; re-import differs: %s" % (label, case["pos"], m[0]))
    return msgs, {"classes": ["refuse"], "outcome": "written", "ops": 2}
