"""C07 - chi^2 and the optimization trajectory are independent of the world frame (engine E2: commuting squares)."""
import copy
import itertools
import math

from .. import alphabets as A
from .. import families as F
from .. import impl as I
from .. import slamfam as SF
from .. import squares as SQ
from ..ref import geom as G
from ..runner import Acc

ID = "C07"

META = {
    "rule": "graphs = every well-posed member of F(3, m<=2) built from odometry/landmark edges only (all type multisets, first vertex fixed) + SLAM families (ring, eight, grid / ring, helix; "
    "n in {3,6,12}, noise-free and noisy, inside the C05 radii); transforms T = finite alphabet (identity, generic, translation 1e3-scale and 1e6-scale, 180 deg, 179.9 deg about a generic axis, 120 deg Hurwitz, "
    "w<0; SE(2): pi/2, pi-1e-3, -2, 3.1; R^n: translations). For every (graph, T) the trajectory x_{k+1} = GN(x_k), k = 0..5, is followed and at EVERY state: edge errors and chi2 of L_T(x_k) "
    "equal those of x_k, and GN(L_T(x_k)) = L_T(GN(x_k)); plus, at every state, the same frame change applied IN PLACE to an already evaluated graph (history), plus the direct 5-step comparison on the SLAM families. non-trivial = T is not the identity and the step moves a vertex",
    "assumptions": ["finite transform alphabet", "L_T is computed with the reference geometry", "tolerance 1e-11 x (1 + |T| + |x| + |dx|) x max(1, cond/1e3); states whose reduced Hessian has cond > 1e6 end the trajectory (counted)"],
    "required_classes": ["T:180deg", "T:huge_translation", "T:large_translation", "T:w_negative", "T:near_180", "kind:SE2", "kind:SE3", "kind:R2", "kind:R3", "landmark_offset", "slam_family", "shape_family", "state_depth_5"],
    "bounds": {"quick": "shape family m<=2 (single vertex order), SLAM families n in {3,6}; 7 transforms; depth 5", "thorough": "SLAM families n in {3,6,12,24} x 3 noise patterns; shape family m<=2 x 2 vertex orders; depth 5"},
}


def transforms(seed):
    g1 = A.unit(A.jit(seed, "Q1", [0.1, -0.2, 0.3, 0.9]))
    ax = A.unit([1.0, 2.0, -2.0])
    h = math.radians(179.9) / 2
    t3 = [
        ("identity", [0.0, 0.0, 0.0, 0.0, 0.0, 0.0, 1.0]),
        ("generic", A.jit(seed, "T1", [0.7, -1.3, 2.1]) + g1),
        ("large_translation", A.jit(seed, "T5", [1e3, -2e3, 5e2]) + [0.0, 0.0, 0.0, 1.0]),
        ("180deg", [0.3, 0.1, -0.2, 1.0, 0.0, 0.0, 0.0]),
        ("near_180", [0.5, -0.5, 0.25] + [ax[0] * math.sin(h), ax[1] * math.sin(h), ax[2] * math.sin(h), math.cos(h)]),
        ("hurwitz120", [1.0, 2.0, 3.0, 0.5, 0.5, 0.5, 0.5]),
        ("w_negative", A.jit(seed, "T2", [-3.2, 0.4, -0.9]) + [-x for x in g1]),
        ("huge_translation", A.jit(seed, "T6", [1e6, -2e6, 5e5]) + g1),
    ]
    t2 = [
        ("identity", [0.0, 0.0, 0.0]),
        ("generic", A.jit(seed, "T1", [0.7, -1.3]) + [0.8]),
        ("large_translation", A.jit(seed, "T5", [1e3, -2e3]) + [0.0]),
        ("180deg", [0.3, 0.1, math.pi]),
        ("near_180", [0.5, -0.5, math.pi - 1e-3]),
        ("hurwitz120", [1.0, 2.0, -2.0]),
        ("w_negative", A.jit(seed, "T2", [-3.2, 0.4]) + [3.1]),
        ("huge_translation", A.jit(seed, "T6", [1e6, -2e6]) + [0.8]),
    ]
    return t2, t3


class Frame(SQ.Rep):
    compare_errors = True
    inplace = True

    def __init__(self, name, t2, t3):
        self.name = "world-frame change " + name
        self.t2, self.t3 = t2, t3
        self.scale = max(abs(x) for x in t2[:2] + t3[:3])

    def _map(self, kind, c):
        if kind == "SE2":
            return G.compose("SE2", self.t2, c)
        if kind == "SE3":
            return G.compose("SE3", self.t3, c)
        if kind == "R2":
            return G.act("SE2", self.t2, c)
        return G.act("SE3", self.t3, c)

    def spec_map(self, spec):
        s = copy.deepcopy(spec)
        rn_only = all(v["kind"] in ("R2", "R3") for v in s["vertices"])
        for v in s["vertices"]:
            v["pose"] = self.pose_map(v, rn_only)
        return s

    def pose_map(self, v, rn_only=None):
        if rn_only is None:
            rn_only = self._rn
        if rn_only:  # R^n graphs: T is a translation
            t = self.t2[:2] if v["kind"] == "R2" else self.t3[:3]
            return [a + b for a, b in zip(v["pose"], t)]
        return self._map(v["kind"], v["pose"])


def graphs(tier, seed):
    out = []
    # shape family: odometry / landmark edges only
    for ti, types in enumerate(F.type_multisets(3)):
        cands = F.candidate_edges(types, seed, custom=False)
        if not cands:
            continue
        for ms in F.edge_multisets(len(cands), 2):
            for vo in ([[0, 1, 2]] if tier == "quick" else [[0, 1, 2], [2, 0, 1]]):
                out.append(("shape", {"types": types, "ms": ms, "vo": vo}))
            if any(t in ("R2", "R3") for t in types) and any(cands[k]["type"] == "lm" for k in ms):
                out.append(("shape", {"types": types, "ms": ms, "vo": [0, 1, 2], "zero_points": True}))
    sizes = (3, 6) if tier == "quick" else (3, 6, 12, 24)
    noises = (("zero", 0.0), ("sin", 0.02)) if tier == "quick" else (("zero", 0.0), ("sin", 0.02), ("alt", 0.02))
    for kind in ("SE2", "SE3"):
        for fam in SF.FAMILIES[kind]:
            for n in sizes:
                for nz, amp in noises:
                    out.append(("slam", {"kind": kind, "fam": fam, "n": n, "noise": nz, "nz": amp}))
            # object reuse in the original frame only: a vertex's pose object IS the measurement object of its incoming edge
            out.append(("slam", {"kind": kind, "fam": fam, "n": 3, "noise": "sin", "nz": 0.02, "share": True}))
            # landmarks initialised hundreds of units away: one exact (large) step brings them back, in every frame
            out.append(("slam", {"kind": kind, "fam": fam, "n": 6, "noise": "sin", "nz": 0.02, "lm_far": True}))
            # landmark observations that agree EXACTLY (error 0.0, bit for bit) with the initial guess in the original frame, next to noisy odometry:
            # in a displaced frame the same residuals are 1e-16, and the trajectories must still correspond
            out.append(("slam", {"kind": kind, "fam": fam, "n": 6, "noise": "sin", "nz": 0.02, "lm_exact": True}))
    return out


def spec_of(gdesc, seed):
    typ, d = gdesc
    if typ == "shape":
        cands = F.candidate_edges(d["types"], seed, custom=False)
        sp = F.make_spec(d["types"], seed, d["ms"], [True, False, False], d["vo"], None, None, cands=cands)
        if d.get("zero_points"):
            for v in sp["vertices"]:
                if v["kind"] in ("R2", "R3") and not v["fixed"]:
                    v["pose"] = [0.0] * len(v["pose"])  # a landmark exactly at the world origin
        return sp
    dt, dr = (0.3, 0.2) if d["kind"] == "SE2" else (0.1, 0.05)
    spec, _ = SF.make(d["fam"], d["kind"], d["n"], "alt", d["noise"], dt, dr, d["nz"], seed)
    if d.get("share"):
        # vertex 1 starts exactly at the dead-reckoned measurement of edge 0 -> 1 and IS that object
        spec["vertices"][1]["pose"] = list(spec["edges"][0]["z"]) if spec["vertices"][0]["pose"][: len(spec["edges"][0]["z"])] == [0.0] * 0 else spec["vertices"][1]["pose"]
        spec["edges"][0]["z"] = list(spec["vertices"][1]["pose"])
        spec["share"] = [["vertex", 1, "estimate", 0]]
    if d.get("lm_exact"):
        byid = {v["id"]: v for v in spec["vertices"]}
        pk = "R2" if d["kind"] == "SE2" else "R3"
        for e in spec["edges"]:
            if e["type"] == "lm":
                sens = I.mk_pose(d["kind"], byid[e["ids"][0]]["pose"]) + I.mk_pose(d["kind"], e["off"])
                e["z"] = I.comps(sens.inverse + I.mk_pose(pk, byid[e["ids"][1]]["pose"]))
    if d.get("lm_far"):
        for k, v in enumerate(spec["vertices"]):
            if v["id"] >= 1000:
                v["pose"] = [x + 300.0 * (1 + k % 2) * (-1) ** c for c, x in enumerate(v["pose"])]
    return spec


def chunks(tier, seed):
    gs = graphs(tier, seed)
    n = 48
    return [("g", k, n) for k in range(n)]


def run_chunk(chunk, tier, seed):
    _, part, parts = chunk
    acc = Acc(ID, signature)
    t2s, t3s = transforms(seed)
    for gi, gd in enumerate(graphs(tier, seed)):
        if gi % parts != part:
            continue
        for ti in range(len(t2s)):
            _do(acc, {"graph": list(gd), "T": ti, "seed": seed})
    return acc


def _do(acc, case):
    acc.evals += 1
    msgs, info = _eval(case)
    acc.states += info.get("states", 0)
    acc.transitions += 2 * info.get("squares", 0)
    acc.traces += info.get("squares", 0)
    if info.get("excluded"):
        acc.exclude("trajectory ended at an ill-conditioned state", info["excluded"])
    for c in info.get("classes", ()):
        acc.cls(c)
    if info.get("squares", 0) and case["T"] != 0:
        acc.nontrivial += 1
    acc.ratio(info.get("ratio", 0.0), case if info.get("ratio", 0) > 1e-2 else None)
    acc.outcome("squares=%d" % info.get("squares", 0))
    if msgs:
        acc.violation(case, msgs)
    acc.sample(case, 1)


def eval_case(case):
    return _eval(case)[0]


def signature(case, msgs):
    return {"T": case.get("T"), "family": case["graph"][0]}


def _eval(case):
    try:
        gd = (case["graph"][0], case["graph"][1])
        seed = case["seed"]
        spec = spec_of(gd, seed)
        t2s, t3s = transforms(seed)
        name = t2s[case["T"]][0]
        rep = Frame(name, t2s[case["T"]][1], t3s[case["T"]][1])
        rep._rn = all(v["kind"] in ("R2", "R3") for v in spec["vertices"])
        msgs, info = SQ.run(spec, rep, 5, direct=(gd[0] == "slam"))
        classes = {"T:" + name, "slam_family" if gd[0] == "slam" else "shape_family"}
        for v in spec["vertices"]:
            classes.add("kind:" + v["kind"])
        if any(e["type"] == "lm" and (len(e["off"]) == 7 and abs(e["off"][6]) != 1.0 or len(e["off"]) == 3 and e["off"][2] != 0.0) for e in spec["edges"]):
            classes.add("landmark_offset")
        if info["squares"] >= 6:
            classes.add("state_depth_5")
        info["classes"] = sorted(classes)
        return msgs, info
    except Exception as ex:
        import traceback

        return ["raised %s: %s | %s" % (type(ex).__name__, ex, traceback.format_exc()[-600:])], {"ratio": float("inf")}
