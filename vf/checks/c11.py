"""C11 - manifold invariants: angle range and unit quaternions (engine E2 operation trees/chains + E1 alphabets)."""
import itertools
import math
from fractions import Fraction

import numpy as np

from .. import alphabets as A
from .. import gbuild as GB
from .. import impl as I
from .. import slamfam as SF
from ..ref import geom as G
from ..runner import Acc

ID = "C11"
EPS = np.finfo(float).eps

META = {
    "rule": "(wrap) neg_pi_to_pi, the PoseSE2 constructor and the .g2o loader (VERTEX_SE2 line) on the dense angle alphabet (every k pi/4 +- 0..3 ulp, 2 pi k +- 0..2 ulp, +-10^m and 3x10^m up to 1e6, ...): result in [-pi, pi] "
    "and congruent to the argument modulo the EXACT 2 pi (60-digit rational) within 4 ulp(max(|a|,4)); (normalize) unit quaternions x scales {1e-3,1,1e3} x both signs; (tree) every word "
    "over a 25-operation alphabet {(+)a, a(+), (-)a, a(-), inverse, [+]delta, copy, p += a, p += delta} up to depth 4 (thorough 5) from 6 start poses, invariants on EVERY node: SE(2) angle in [-pi, pi] and "
    "congruent to the exact function of the operand angles, SE(3) | |q| - 1 | <= 8 k eps after k operations, finiteness; (chain) every word of length <= 2 iterated periodically to 1e3 "
    "(thorough 1e4; length 3 to 1e3) operations; (opt) SE(3) SLAM families optimised 50 iterations one at a time, norms checked after each; (optk) one optimize(tol=0, max_iter=k) call for EVERY k in 1..50. non-trivial = node reached by a word containing a rotation",
    "assumptions": ["exhaustive in the generating word, not over all 1e4-long words", "drift bound 8 k eps (measured <= 1.0 k eps on the pinned tree)"],
    "required_classes": ["wrap", "wrap:plus_pi_reached", "ctor", "load", "mat", "intctor", "halfturn", "tinyadd", "opt_single_call", "normalize", "tree:SE2", "tree:SE3", "chain:SE2", "chain:SE3", "opt_history", "w_negative", "angle_seam"],
    "bounds": {"quick": "tree depth 4; chains: words <= 2 to 1e3 operations; optimizer histories 50 iterations", "thorough": "tree depth 5; chains: words <= 2 to 1e4, words of length 3 to 1e3"},
}


# -------------------------------------------------------------------------------------------- operation alphabet
def operands(kind, seed):
    if kind == "SE2":
        return [[0.7, -1.3, 2.0], [-3.2, 0.4, -3.1], [0.0, 0.0, math.pi], [0.1, 0.2, 1e-3]]
    qs = A.Q_small(seed)
    ts = [[0.7, -1.3, 2.1], [-3.2, 0.4, -0.9], [0.0, 0.0, 0.0], [0.1, 0.2, -0.1]]
    return [t + q for t, q in zip(ts, qs)]


def deltas(kind):
    if kind == "SE2":
        # a rotation step of more than one full turn is a legal increment: [+] must still land in [-pi, pi]
        return [[0.1, -0.05, 0.3], [0.0, 0.0, math.pi], [-0.2, 0.1, -7.5], [1e-3, 1e-3, 10.0]]
    # rotational parts of norm 0.23, 1 (180 deg), 0.87 and 5e-3 (small-angle regime)
    u = 1.0 / 3.0 ** 0.5  # float norm exactly 1.0, sum of squares 1 + 2^-52 (half turn about the diagonal)
    return [[0.1, -0.05, 0.02, 0.1, -0.2, 0.05], [0.0, 0.0, 0.0, u, u, u], [-0.2, 0.1, 0.0, -0.5, 0.5, 0.5], [1e-3, 0.0, 0.0, 3e-3, -4e-3, 1e-9]]


def ops(kind, seed):
    out = []
    for k in range(4):
        out += [("radd", k), ("ladd", k), ("rsub", k), ("lsub", k), ("box", k)]
    out += [("inv", 0), ("copy", 0)]
    # the in-place spellings: p += pose (same type), p += increment array
    out += [("iadd", 0), ("iadd", 1), ("ibox", 0)]
    return out


NOPS = 25


def starts(kind, seed):
    if kind == "SE2":
        return [[0.0, 0.0, 0.0], [1.0, 2.0, math.pi], [1.0, 2.0, A.ANG_PLUS_PI_SOURCE], [-5.0, 0.5, -3.0], [0.3, 0.3, 1.5707963267948966], [100.0, -200.0, 0.7]]
    q = A.Q("quick", seed)
    return [[0.0, 0.0, 0.0] + q[0], [1.0, 2.0, 3.0] + q[1], [1.0, 2.0, 3.0] + q[4], [-5.0, 0.5, 2.0] + q[6], [0.3, 0.3, 0.3] + q[7], [100.0, -200.0, 50.0] + q[5]]


def apply(kind, p, op, opnd, dl):
    name, k = op
    if name == "radd":
        return p + opnd[k]
    if name == "ladd":
        return opnd[k] + p
    if name == "rsub":
        return p - opnd[k]
    if name == "lsub":
        return opnd[k] - p
    if name == "box":
        return p + dl[k]
    if name == "inv":
        return p.inverse
    if name == "iadd":
        r = p.copy()
        r += opnd[k]
        return r
    if name == "ibox":
        r = p.copy()
        r += dl[k]
        return r
    return p.copy()


def exact_angle(op, th, opnd_c, dl_c):
    """exact (unwrapped) result angle as a Fraction function of the operand angles."""
    name, k = op
    t = Fraction(th)
    if name in ("radd", "iadd"):
        return t + Fraction(opnd_c[k][2])
    if name == "ladd":
        return Fraction(opnd_c[k][2]) + t
    if name == "rsub":
        return t - Fraction(opnd_c[k][2])
    if name == "lsub":
        return Fraction(opnd_c[k][2]) - t
    if name in ("box", "ibox"):
        return t + Fraction(dl_c[k][2])
    if name == "inv":
        return -t
    return t


_TWO_PI = 2 * G._PI50


def congruent(r, exact, tol):
    d = Fraction(r) - exact
    k = round(d / _TWO_PI)
    return abs(d - k * _TWO_PI) <= tol


def check_node(kind, p, depth, op, prev_th, opnd_c, dl_c):
    c = I.comps(p)
    if not all(math.isfinite(x) for x in c):
        return "non-finite pose %r after %d operations" % (c, depth)
    if kind == "SE2":
        th = c[2]
        if not (-math.pi <= th <= math.pi):
            return "angle %.17g outside [-pi, pi] after operation %r" % (th, op)
        if prev_th is not None:
            ex = exact_angle(op, prev_th, opnd_c, dl_c)
            if not congruent(th, ex, Fraction(16 * math.ulp(4.0))):
                return "angle %.17g is not congruent (mod 2 pi) to the exact angle %.17g after operation %r" % (th, float(ex), op)
    else:
        n = math.sqrt(sum(x * x for x in c[3:]))
        if abs(n - 1.0) > 8 * max(depth, 1) * EPS + 2 * EPS:
            return "| |q| - 1 | = %.3g > 8 k eps after k = %d operations (last %r)" % (abs(n - 1.0), depth, op)
    return None


# -------------------------------------------------------------------------------------------- chunks
def chunks(tier, seed):
    out = [("wrap", None, 0), ("normalize", None, 0)]
    for kind in ("SE2", "SE3"):
        for s in range(6):
            for o in range(NOPS):
                out.append(("tree", kind, (s, o)))
        for o in range(NOPS):
            out.append(("chain", kind, o))
    for kind_fam in (("SE3", "ring"), ("SE3", "helix"), ("SE2", "ring")):
        out.append(("opt", kind_fam, 0))
        # single optimize() calls of every length 1..50 (the loop counter inside one call is part of the state)
        for lo in range(1, 51, 10):
            out.append(("optk", kind_fam, lo))
    return out


def run_chunk(chunk, tier, seed):
    typ, a, b = chunk
    acc = Acc(ID, signature)
    if typ == "wrap":
        from graphslam.util import neg_pi_to_pi

        for ang in A.ANG_DENSE():
            for which in ("wrap", "ctor", "load", "mat"):
                case = {"t": which, "a": ang}
                acc.evals += 1
                acc.states += 1
                acc.transitions += 1
                acc.traces += 1
                acc.nontrivial += 1 if abs(ang) > math.pi else 0
                acc.cls(which)
                msgs, r = _eval_wrap(case)
                if r == math.pi:
                    acc.cls("wrap:plus_pi_reached")
                if msgs:
                    acc.violation(case, msgs)
                acc.sample(case, 1)
        extra = [{"t": "intctor", "a": k, "pos": pos} for k in range(-10, 11) for pos in ("int", "float")]
        # angles where an inverse-trigonometric shortcut is ill-conditioned, for construction from a matrix
        extra += [{"t": "mat", "a": x} for x in (1e-5, -1e-6, 1e-9, 3e-9, math.pi - 3e-8, -math.pi + 1e-6, math.pi / 2 + 1e-7, -math.pi / 2 - 1e-7, 1e-12)]
        # composition / update by a heading increment far below 1e-12 (still thousands of ulps of a small angle)
        extra += [{"t": "tinyadd", "a": x, "inc": inc, "how": how} for x in (0.0, 0.3, -2.0, 3.1, 1e-9) for inc in (5e-13, -3e-13, 2e-15) for how in ("pose", "array", "iadd")]
        extra += [{"t": "halfturn", "a": math.pi, "z": [z1, z2], "tr": tr} for z1 in (0.0, -0.0, 1.2246467991473532e-16, -1.2246467991473532e-16) for z2 in (0.0, -0.0, 1.2246467991473532e-16, -1.2246467991473532e-16) for tr in ([0.0, 0.0], [3.0, -4.0])]
        for case in extra:
            acc.evals += 1
            acc.states += 1
            acc.transitions += 1
            acc.traces += 1
            acc.nontrivial += 1
            acc.cls(case["t"])
            msgs, r = _eval_wrap(case)
            if msgs:
                acc.violation(case, msgs)
            acc.sample(case, 1)
    elif typ == "normalize":
        for q in A.Q("thorough", seed):
            for sc in (1e-3, 1.0, 1e3):
                for sg in (1.0, -1.0):
                    case = {"t": "normalize", "q": q, "scale": sc, "sign": sg}
                    acc.evals += 1
                    acc.states += 1
                    acc.transitions += 1
                    acc.traces += 1
                    acc.nontrivial += 1
                    acc.cls("normalize")
                    if sg * q[3] < 0:
                        acc.cls("w_negative")
                    msgs = _eval_norm(case)
                    if msgs:
                        acc.violation(case, msgs)
                    acc.sample(case, 1)
    elif typ == "tree":
        kind = a
        s, o = b
        depth = 4 if tier == "quick" else 5
        _tree(acc, kind, seed, s, o, depth)
    elif typ == "chain":
        kind = a
        allops = ops(kind, seed)
        first = allops[b]
        n1 = 1000 if tier == "quick" else 10000
        words = [[first]] + [[first, o2] for o2 in allops]
        for w in words:
            _chain(acc, kind, seed, w, n1)
        if tier == "thorough":
            for o2 in allops:
                for o3 in allops:
                    _chain(acc, kind, seed, [first, o2, o3], 1000)
    elif typ == "optk":
        kind, fam = a
        for k in range(b, b + 10):
            case = {"t": "optk", "kind": kind, "fam": fam, "n": 3, "noise": "sin", "nz": 0.02, "seed": seed, "k": k}
            acc.evals += 1
            msgs, info = _eval_optk(case)
            acc.states += 1
            acc.transitions += k
            acc.traces += 1
            acc.nontrivial += 1
            acc.cls("opt_single_call")
            acc.ratio(info["ratio"])
            if msgs:
                acc.violation(case, msgs)
            acc.sample(case, 1)
    elif typ == "opt":
        kind, fam = a
        for n in (3, 6):
            for noise, amp in (("zero", 0.0), ("sin", 0.02)):
                case = {"t": "opt", "kind": kind, "fam": fam, "n": n, "noise": noise, "nz": amp, "seed": seed}
                acc.evals += 1
                msgs, info = _eval_opt(case)
                acc.states += info["states"]
                acc.transitions += info["states"]
                acc.nontrivial += 1
                acc.cls("opt_history")
                acc.ratio(info["ratio"])
                if msgs:
                    acc.violation(case, msgs)
                acc.sample(case, 1)
    return acc


def _tree(acc, kind, seed, s, o, depth):
    opnd_c, dl_c = operands(kind, seed), deltas(kind)
    opnd = [I.mk_pose(kind, c) for c in opnd_c]
    dl = [np.array(d, dtype=float) for d in dl_c]
    allops = ops(kind, seed)
    start_c = starts(kind, seed)[s]
    p0 = I.mk_pose(kind, start_c)
    acc.cls("tree:" + kind)
    if kind == "SE3" and start_c[6] < 0:
        acc.cls("w_negative")
    if kind == "SE2" and abs(abs(start_c[2]) - math.pi) < 1e-9:
        acc.cls("angle_seam")
    # iterative DFS over words beginning with operation index o
    stack = [(p0, [allops[o]], 0)]
    maxr = 0.0
    while stack:
        p, todo, d = stack.pop()
        op = todo[0]
        prev_th = float(p[2]) if kind == "SE2" else None
        try:
            q = apply(kind, p, op, opnd, dl)
        except Exception as ex:
            acc.violation({"t": "tree", "kind": kind, "start": s, "seed": seed, "word": None, "op": list(op)}, ["operation %r raised %s" % (op, type(ex).__name__)])
            continue
        acc.states += 1
        acc.transitions += 1
        acc.evals += 1
        if op[0] not in ("copy",):
            acc.nontrivial += 1
        bad = check_node(kind, q, d + 1, op, prev_th, opnd_c, dl_c)
        if kind == "SE3":
            c = I.comps(q)
            n = math.sqrt(sum(x * x for x in c[3:]))
            maxr = max(maxr, abs(n - 1.0) / (8 * (d + 1) * EPS + 2 * EPS))
        if bad:
            acc.violation({"t": "node", "kind": kind, "seed": seed, "pose": I.comps(p), "op": list(op), "depth": d + 1}, [bad])
            continue
        if d + 1 < depth:
            for nxt in allops:
                stack.append((q, [nxt], d + 1))
    acc.ratio(maxr)
    acc.traces += 1
    acc.sample({"t": "tree", "kind": kind, "start": start_c, "first_op": list(allops[o]), "depth": depth}, 1)


def _chain(acc, kind, seed, word, n):
    opnd_c, dl_c = operands(kind, seed), deltas(kind)
    opnd = [I.mk_pose(kind, c) for c in opnd_c]
    dl = [np.array(d, dtype=float) for d in dl_c]
    p = I.mk_pose(kind, starts(kind, seed)[1])
    acc.cls("chain:" + kind)
    acc.evals += 1
    acc.traces += 1
    maxr = 0.0
    for k in range(n):
        op = word[k % len(word)]
        prev_th = float(p[2]) if kind == "SE2" else None
        prev = p
        try:
            p = apply(kind, p, op, opnd, dl)
        except Exception as ex:
            acc.violation({"t": "node", "kind": kind, "seed": seed, "pose": I.comps(prev), "op": list(op), "depth": k + 1, "word": [list(w) for w in word]}, ["operation %r raised %s in a periodic chain" % (op, type(ex).__name__)])
            break
        acc.transitions += 1
        # translations of periodic chains may grow without bound; the invariants concern the rotation
        bad = check_node(kind, p, k + 1, op, prev_th, opnd_c, dl_c)
        if kind == "SE3" and not bad:
            c = I.comps(p)
            nn = math.sqrt(sum(x * x for x in c[3:]))
            maxr = max(maxr, abs(nn - 1.0) / (8 * (k + 1) * EPS + 2 * EPS))
        if bad:
            acc.violation({"t": "node", "kind": kind, "seed": seed, "pose": I.comps(prev), "op": list(op), "depth": k + 1, "word": [list(w) for w in word]}, [bad + " (periodic chain of word %r)" % (word,)])
            break
    acc.states += n
    acc.nontrivial += 1
    acc.ratio(maxr)


def eval_case(case):
    t = case["t"]
    if t in ("wrap", "ctor", "load", "mat", "intctor", "halfturn", "tinyadd", "tinyadd"):
        return _eval_wrap(case)[0]
    if t == "optk":
        return _eval_optk(case)[0]
    if t == "normalize":
        return _eval_norm(case)
    if t == "opt":
        return _eval_opt(case)[0]
    if t == "node":
        kind = case["kind"]
        seed = case["seed"]
        opnd_c, dl_c = operands(kind, seed), deltas(kind)
        p = I.mk_pose(kind, case["pose"])
        np.asarray(p)[...] = case["pose"]
        q = apply(kind, p, tuple(case["op"]), [I.mk_pose(kind, c) for c in opnd_c], [np.array(d, dtype=float) for d in dl_c])
        bad = check_node(kind, q, case["depth"], tuple(case["op"]), float(p[2]) if kind == "SE2" else None, opnd_c, dl_c)
        return [bad] if bad else []
    return []


def signature(case, msgs):
    return {"t": case.get("t"), "kind": case.get("kind")}


def _eval_wrap(case):
    from graphslam.util import neg_pi_to_pi

    a = case["a"]
    msgs = []
    if case["t"] == "tinyadd":
        p0 = I.mk_pose("SE2", [1.0, -2.0, a])
        inc = case["inc"]
        if case["how"] == "pose":
            r_ = p0 + I.mk_pose("SE2", [0.5, 0.25, inc])
        elif case["how"] == "array":
            r_ = p0 + np.array([0.5, 0.25, inc])
        else:
            r_ = p0.copy()
            r_ += np.array([0.0, 0.0, inc])
        r = float(r_[2])
        msgs = []
        if not (-math.pi <= r <= math.pi):
            msgs.append("tinyadd: angle %.17g outside [-pi, pi]" % r)
        if not congruent(r, Fraction(float(p0[2])) + Fraction(inc), Fraction(2 * math.ulp(4.0))):
            msgs.append("heading %.17g composed with an increment of %g gives %.17g: not congruent to the exact sum (the increment was dropped?)" % (float(p0[2]), inc, r))
        return msgs, r
    if case["t"] == "wrap":
        r = float(neg_pi_to_pi(a))
    elif case["t"] == "mat":
        # construction from a homogeneous matrix (entries from the C library's cos / sin of the angle)
        c_, s_ = math.cos(a), math.sin(a)
        r = float(I.CLS["SE2"].from_matrix(np.array([[c_, -s_, 1.0], [s_, c_, -2.0], [0.0, 0.0, 1.0]]))[2])
    elif case["t"] == "halfturn":
        # a half turn written with exact -1 on the diagonal and zeros / rounding-size entries of either sign off the diagonal
        z1, z2 = case["z"]
        r = float(I.CLS["SE2"].from_matrix(np.array([[-1.0, z1, case["tr"][0]], [z2, -1.0, case["tr"][1]], [0.0, 0.0, 1.0]]))[2])
    elif case["t"] == "intctor":
        # all-integer arguments (Python ints) are the same numbers
        pos = [1, 2] if case["pos"] == "int" else [1.0, 2.0]
        r = float(I.CLS["SE2"](pos, int(a))[2])
    elif case["t"] == "load":
        # the pose the .g2o loader produces for a VERTEX_SE2 line carrying this angle
        import os
        import shutil
        import tempfile

        tmp = tempfile.mkdtemp(prefix="vf-c11-")
        try:
            path = os.path.join(tmp, "a.g2o")
            with open(path, "w") as f:
                f.write("VERTEX_SE2 0 1.0 -2.0 %r\nVERTEX_SE2 1 0.0 0.0 0.0\nEDGE_SE2 0 1 1.0 0.0 0.0 1 0 0 1 0 1\n" % float(a))
            g = I.Graph.from_g2o(path)
            r = float(I.graph_vertices(g)[0].pose[2])
        finally:
            shutil.rmtree(tmp, ignore_errors=True)
    else:
        pz = I.mk_pose("SE2", [1.0, -2.0, 0.75])
        pz.inverse  # history: inverse evaluated, then the pose is rewritten in place with the pose under test
        p_ = I.mk_pose("SE2", [1.0, -2.0, a])
        r = float(p_[2])
        np.asarray(pz)[...] = np.asarray(p_)
        ri = float(pz.inverse[2])
        if not (-math.pi <= ri <= math.pi) or not congruent(ri, -Fraction(r), Fraction(16 * math.ulp(4.0))):
            msgs.append("inverse after an in-place rewrite of the pose: angle %.17g is not congruent to minus the stored angle %.17g" % (ri, r))
    if not (-math.pi <= r <= math.pi):
        msgs.append("%s(%r) = %.17g is outside [-pi, pi]" % (case["t"], a, r))
    ex, k = G.wrap_exact(a)
    tol = Fraction(4 * math.ulp(max(abs(a), 4.0)))
    if not congruent(r, Fraction(a), tol):
        msgs.append("%s(%r) = %.17g is not congruent to the argument modulo 2 pi (exact remainder %.17g)" % (case["t"], a, r, float(ex)))
    return msgs, r


def _eval_norm(case):
    msgs = []
    q = [case["sign"] * case["scale"] * x for x in case["q"]]
    p = I.mk_pose("SE3", [1.0, 2.0, 3.0] + q)
    R0 = G.rot_se3(case["q"])
    p.inverse  # history: the inverse was already asked for before the pose is normalised in place
    p.normalize()
    ci = I.comps(p.inverse)
    ni = math.sqrt(sum(x * x for x in ci[3:]))
    if abs(ni - 1.0) > 8 * EPS:
        msgs.append("inverse of a freshly normalised pose has a quaternion of norm %.17g (the inverse had been evaluated before normalize())" % ni)
    c = I.comps(p)
    n = math.sqrt(sum(x * x for x in c[3:]))
    if abs(n - 1.0) > 4 * EPS:
        msgs.append("normalize(): norm %.17g" % n)
    if c[6] < 0:
        msgs.append("normalize(): scalar part %.3g is negative" % c[6])
    if c[:3] != [1.0, 2.0, 3.0]:
        msgs.append("normalize() changed the translation")
    R1 = G.rot_se3(c[3:])
    d = G.mat_maxdiff(R0, R1)
    if d > 1e-12:
        msgs.append("normalize() changed the rotation (matrix differs by %.3g)" % d)
    return msgs


def _eval_optk(case):
    """ONE optimize(tol=0, max_iter=k) call; invariants on the returned vertices."""
    kind = case["kind"]
    dt, dr = (0.3, 0.2) if kind == "SE2" else (0.1, 0.05)
    spec, _ = SF.make(case["fam"], kind, case["n"], "alt", case["noise"], dt, dr, case["nz"], case["seed"])
    g, verts, edges = GB.build(spec)
    k = case["k"]
    GB.optimize(g, tol=0.0, max_iter=k, fix_first_pose=False)
    msgs = []
    ratio = 0.0
    for v in verts:
        c = I.comps(v.pose)
        if not all(math.isfinite(x) for x in c):
            msgs.append("vertex %r not finite after one optimize(max_iter=%d) inside the calibrated neighbourhood" % (v.id, k))
            return msgs, {"ratio": float("inf")}
        if I.kind_of(v.pose) == "SE3":
            n = math.sqrt(sum(x * x for x in c[3:]))
            bound = 16 * (k + 1) * EPS
            ratio = max(ratio, abs(n - 1.0) / bound)
            if abs(n - 1.0) > bound:
                msgs.append("SE(3) vertex %r: | |q| - 1 | = %.3g after one optimize(max_iter=%d)" % (v.id, abs(n - 1.0), k))
        if I.kind_of(v.pose) == "SE2" and not (-math.pi <= c[2] <= math.pi):
            msgs.append("SE(2) vertex %r: angle %.17g outside [-pi, pi] after one optimize(max_iter=%d)" % (v.id, c[2], k))
    return msgs, {"ratio": ratio}


def _eval_opt(case):
    kind = case["kind"]
    dt, dr = (0.3, 0.2) if kind == "SE2" else (0.1, 0.05)
    spec, _ = SF.make(case["fam"], kind, case["n"], "alt", case["noise"], dt, dr, case["nz"], case["seed"])
    g, verts, edges = GB.build(spec)
    msgs = []
    ratio = 0.0
    states = 0
    for it in range(1, 51):
        GB.optimize(g, tol=0.0, max_iter=1, fix_first_pose=False)
        states += 1
        for v in verts:
            c = I.comps(v.pose)
            if not all(math.isfinite(x) for x in c):
                msgs.append("vertex %r not finite after %d iterations inside the calibrated neighbourhood" % (v.id, it))
                return msgs, {"states": states, "ratio": float("inf")}
            if I.kind_of(v.pose) == "SE3":
                n = math.sqrt(sum(x * x for x in c[3:]))
                bound = 16 * (it + 1) * EPS
                ratio = max(ratio, abs(n - 1.0) / bound)
                if abs(n - 1.0) > bound:
                    msgs.append("SE(3) vertex %r: | |q| - 1 | = %.3g after %d optimizer iterations" % (v.id, abs(n - 1.0), it))
                    return msgs, {"states": states, "ratio": ratio}
            if I.kind_of(v.pose) == "SE2" and not (-math.pi <= c[2] <= math.pi):
                msgs.append("SE(2) vertex %r: angle %.17g outside [-pi, pi] after %d iterations" % (v.id, c[2], it))
                return msgs, {"states": states, "ratio": ratio}
    return msgs, {"states": states, "ratio": ratio}
