"""C01 - analytic edge Jacobians are the exact derivative of the edge error (engine E1)."""
import numpy as np

from .. import alphabets as A
from .. import impl as I
from .. import deriv as D
from ..ref import geom as G
from ..runner import Acc

ID = "C01"
TOL = 1e-9

META = {
    "rule": "every (p1, p2, z) triple of the pose alphabet for odometry edges of each type and every (p1, offset, landmark, z) tuple for the four landmark kinds; "
    "for each configuration both vertices x every boxplus direction x every error component are compared with a 5-point central difference (h=1e-3) of the "
    "edge's own calc_error through the implementation's boxplus; non-trivial = analytic Jacobian has an entry outside {0,+-1}",
    "assumptions": [
        "alphabet members only (no claim for other reals)",
        "oracle differentiates the implementation's own error function (C02 owns the error model, C09 the boxplus)",
        "every (pose, offset) also with the landmark exactly at the sensor position; Jacobians must not depend on the fixed flags nor on the information matrix (partial with zero rows, 1e-12 I, integer dtype)",
        "each configuration is also evaluated a second time after an in-place edit of the first vertex's pose (history of length 2)",
        "SE(2) angular error is unwrapped by multiples of 2 pi before differencing (the property excludes the wrap set); SE(3) rotational error sign is aligned when |q_vec| > 0.5",
        "tolerance 1e-9 x (1 + sum of translation magnitudes in the configuration) (5-point oracle accurate to ~1e-11 relative; measured ratio <= 1e-4)",
    ],
    "required_classes": ["odo:R2", "odo:R3", "odo:SE2", "odo:SE3", "lm:SE2", "lm:SE3", "lm:R2", "lm:R3", "w_negative", "w_zero", "offset_rotated", "angle_seam"],
    "bounds": {
        "quick": "odometry: SE3 27^3, SE2 36^3, Rn 3^3 triples; landmark: pose x offset x 3 points x 2 measurements",
        "thorough": "odometry: SE3 (5 translations x 20 quaternions)^3, SE2 (5 x 25)^3; landmark: full thorough pose alphabets x offsets (thinned to 60) x 7 points x 2 measurements",
    },
}


def _P(kind, tier, seed):
    if tier == "quick":
        return A.poses(kind, "quick", seed)
    if kind == "SE3":
        return A.poses(kind, "thorough", seed, max_t=5, max_r=20)
    if kind == "SE2":
        return A.poses(kind, "thorough", seed, max_t=5)
    return A.poses(kind, "thorough", seed)


def _offs(kind, tier, seed):
    ps = A.poses(kind, tier, seed)
    if len(ps) > 60:
        step = len(ps) / 60.0
        ps = [ps[int(i * step)] for i in range(60)]
    # near-degenerate geometry: offsets rotated by a few 1e-7 rad (genuinely small but non-zero partial derivatives)
    if kind == "SE2":
        ps = ps + [[0.5, -0.25, 4e-7], [0.0, 0.0, -3e-7]]
    elif kind == "SE3":
        tiny = A.unit([2e-7, -3e-7, 1e-7, 1.0])
        ps = ps + [[0.5, -0.25, 0.1] + tiny, [0.0, 0.0, 0.0] + tiny]
    return ps


def chunks(tier, seed):
    out = []
    for kind in I.KINDS:
        n = len(_P(kind, tier, seed))
        for i in range(n):
            out.append(("odo", kind, i))
    for kind in I.KINDS:
        n = len(A.poses(kind, tier, seed))
        for i in range(n):
            out.append(("lm", kind, i))
    return out


def run_chunk(chunk, tier, seed):
    typ, kind, i = chunk
    acc = Acc(ID, signature)
    if typ == "odo":
        ps = _P(kind, tier, seed)
        p1 = ps[i]
        for p2 in ps:
            for z in ps:
                _do(acc, {"edge": "odo", "kind": kind, "p1": p1, "p2": p2, "z": z})
        # residuals of thousands of units (a vertex or a measurement far away): the error is still the plain difference
        d = G.DIM[kind]
        far = [2500.0, -1800.0, 900.0][:d]
        for q in ps[: min(len(ps), 4)]:
            _do(acc, {"edge": "odo", "kind": kind, "p1": p1, "p2": far + list(q[d:]), "z": q})
            _do(acc, {"edge": "odo", "kind": kind, "p1": p1, "p2": q, "z": [-x for x in far] + list(q[d:])})
    else:
        p1 = A.poses(kind, tier, seed)[i]
        pk = I.POINT_OF[kind]
        pts = A.poses(pk, tier, seed)
        zs = [[0.0] * len(pts[0]), A.jit(seed, "lmz", [0.4, -0.6, 0.9])[: len(pts[0])]]
        for off in _offs(kind, tier, seed):
            # geometric coincidence: the landmark sits exactly at the sensor position p1 (+) offset (the measurement direction is undefined there,
            # the derivative is not)
            at_sensor = G.compose(kind, I.comps(I.mk_pose(kind, p1)), I.comps(I.mk_pose(kind, off)))[: len(pts[0])]
            for l in pts + [at_sensor]:
                for zi, z in enumerate(zs):
                    # offset ids are export-only: the default None and an explicit 0 (the id every EDGE_SE2_XY edge gets) alternate
                    _do(acc, {"edge": "lm", "kind": kind, "p1": p1, "off": off, "l": l, "z": z, "oid": (0 if zi == 0 else None)})
    return acc


def _do(acc, case):
    acc.evals += 1
    acc.states += 1
    acc.traces += 1
    kind = case["kind"]
    acc.cls("%s:%s" % (case["edge"], kind))
    for key in ("p1", "p2", "z", "off"):
        c = case.get(key)
        if c is None:
            continue
        if kind == "SE3" and len(c) == 7:
            if c[6] < 0:
                acc.cls("w_negative")
            if c[6] == 0:
                acc.cls("w_zero")
        if kind == "SE2" and len(c) == 3 and abs(abs(c[2]) - A.PI) < 1e-5:
            acc.cls("angle_seam")
    if case["edge"] == "lm" and kind in ("SE2", "SE3"):
        off = case["off"]
        if (kind == "SE2" and off[2] != 0.0) or (kind == "SE3" and abs(off[6]) != 1.0):
            acc.cls("offset_rotated")
    msgs, ratio, nontriv, nops = _eval(case)
    acc.transitions += nops
    if nontriv:
        acc.nontrivial += 1
    acc.ratio(ratio, case if ratio > 1e-2 else None)
    if msgs:
        acc.violation(case, msgs)
    acc.sample(case, 1)


def eval_case(case):
    return _eval(case)[0]


def signature(case, msgs):
    return {"edge": case.get("edge"), "kind": case.get("kind")}


def build_edge(case):
    kind = case["kind"]
    if case["edge"] == "odo":
        v1 = I.Vertex(1, I.mk_pose(kind, case["p1"]))
        v2 = I.Vertex(2, I.mk_pose(kind, case["p2"]))
        n = I.COMPACT[kind]
        return I.EdgeOdometry([1, 2], np.eye(n), I.mk_pose(kind, case["z"]), [v1, v2]), n
    pk = I.POINT_OF[kind]
    v1 = I.Vertex(1, I.mk_pose(kind, case["p1"]))
    v2 = I.Vertex(2, I.mk_pose(pk, case["l"]))
    n = I.COMPACT[pk]
    # history carried by every case: another landmark edge with an IDENTITY offset and the same offset id (offset ids only matter for
    # export; two graphs may both number their sensor offsets from 0) has already been differentiated in this process
    w1 = I.Vertex(11, I.mk_pose(kind, G.identity(kind)))
    w2 = I.Vertex(12, I.mk_pose(pk, [0.5, -0.25, 0.75][:n]))
    I.EdgeLandmark([11, 12], np.eye(n), I.mk_pose(pk, [0.0] * n), offset=I.mk_pose(kind, G.identity(kind)), offset_id=0, vertices=[w1, w2]).calc_jacobians()
    return I.EdgeLandmark([1, 2], np.eye(n), I.mk_pose(pk, case["z"]), offset=I.mk_pose(kind, case["off"]), offset_id=case.get("oid"), vertices=[v1, v2]), n


def _eval(case):
    msgs = []
    kind = case["kind"]
    try:
        e, n = build_edge(case)
        sc = 1.0
        for key in ("p1", "p2", "z", "off", "l"):
            c = case.get(key)
            if c is not None:
                d = len(c) if (case["edge"] == "lm" and key in ("l", "z")) else G.DIM[kind]
                sc += max(abs(x) for x in c[:d])
        before = [I.comps(v.pose) for v in e.vertices]
        jacs = e.calc_jacobians()
        held = [np.array(J, dtype=float, copy=True) for J in jacs]
        if len(jacs) != 2:
            return ["calc_jacobians returned %d matrices for a 2-vertex edge" % len(jacs)], 0.0, False, 1
        angle_idx = (2,) if (kind == "SE2" and case["edge"] == "odo") else ()
        rot = slice(3, 6) if (kind == "SE3" and case["edge"] == "odo") else None
        ratio = 0.0
        nontriv = False
        nops = 0
        for vi in (0, 1):
            Ja = np.asarray(jacs[vi], dtype=float)
            cd = e.vertices[vi].pose.COMPACT_DIMENSIONALITY
            if Ja.shape != (n, cd):
                msgs.append("Jacobian %d has shape %r, expected %r" % (vi, Ja.shape, (n, cd)))
                continue
            e0, Jn = D.edge_fd_jacobian(e, vi, angle_idx, rot)
            nops += 1 + 4 * cd
            if not np.all(np.isfinite(Ja)):
                msgs.append("Jacobian %d is not finite" % vi)
                continue
            if np.any((np.abs(Ja) > 1e-12) & (np.abs(np.abs(Ja) - 1.0) > 1e-12)):
                nontriv = True
            if kind in ("R2", "R3"):
                # linear edges: the derivative is an exact constant matrix (entries -1, 0, +1); nothing justifies even 1e-10 of error
                Jx = np.round(Jn)
                dx_ = float(np.max(np.abs(Ja - Jx)))
                if float(np.max(np.abs(Jn - Jx))) < 1e-6 and dx_ > 1e-13:
                    msgs.append("R^n edge: Jacobian %d differs from the exact constant derivative by %.3g" % (vi, dx_))
            diff = np.abs(Ja - Jn)
            k = int(np.argmax(diff))
            dmax = float(diff.ravel()[k])
            r = dmax / (TOL * sc)
            ratio = max(ratio, r)
            if r > 1.0:
                row, col = divmod(k, cd)
                msgs.append(
                    "d e[%d] / d (vertex %d boxplus direction %d): analytic %.12g vs 5-point derivative %.12g (|diff| %.3g > %.3g)"
                    % (row, vi, col, Ja[row, col], Jn[row, col], dmax, TOL * sc)
                )
        after = [I.comps(v.pose) for v in e.vertices]
        if after != before:
            msgs.append("calc_jacobians changed a vertex pose")
        # the derivative does not know about fixed flags
        if not msgs:
            for flags in ((True, True), (True, False), (False, True)):
                for v, f in zip(e.vertices, flags):
                    v.fixed = f
                jf = e.calc_jacobians()
                nops += 1
                for vi in (0, 1):
                    if not np.array_equal(np.asarray(jf[vi], dtype=float), np.asarray(jacs[vi], dtype=float)):
                        msgs.append("Jacobian %d changes when the vertices are marked fixed=%r" % (vi, flags))
            for v in e.vertices:
                v.fixed = False
        # ... nor about the information matrix (partial information with all-zero rows, tiny information, integer-typed information)
        if not msgs:
            keep_info = e.information
            for name, om in (("diag(1,..,0)", np.diag([1.0] * (n - 1) + [0.0])), ("diag(0,..,10)", np.diag([0.0] * (n - 1) + [10.0])), ("1e-12 I", 1e-12 * np.eye(n)), ("integer identity", np.eye(n, dtype=int))):
                e.information = om
                ji = e.calc_jacobians()
                nops += 1
                for vi in (0, 1):
                    if np.asarray(ji[vi]).shape != np.asarray(jacs[vi]).shape or not np.array_equal(np.asarray(ji[vi], dtype=float), np.asarray(jacs[vi], dtype=float)):
                        msgs.append("Jacobian %d changes when the edge's information matrix is %s (the error does not depend on it)" % (vi, name))
            e.information = keep_info
        # history: evaluate the error, edit the first vertex's pose IN PLACE (a user may do that: poses are arrays), then ask
        # for the Jacobians again -- they must be the derivative at the NEW pose (no stale intermediate results)
        if not msgs:
            e.calc_error()
            src = case["z"] if case["edge"] == "odo" else case["off"]
            np.asarray(e.vertices[0].pose)[...] = I.comps(I.mk_pose(kind, src))
            jacs2 = e.calc_jacobians()
            for vi in (0, 1):
                Ja = np.asarray(jacs2[vi], dtype=float)
                cd = e.vertices[vi].pose.COMPACT_DIMENSIONALITY
                e0, Jn = D.edge_fd_jacobian(e, vi, angle_idx, rot)
                nops += 1 + 4 * cd
                diff = np.abs(Ja - Jn)
                dmax = float(np.max(diff)) if Ja.shape == Jn.shape else float("inf")
                r = dmax / (TOL * sc)
                ratio = max(ratio, r)
                if not r <= 1.0:
                    msgs.append("after editing the pose of vertex 0 in place (calc_error evaluated before the edit): Jacobian %d differs from the 5-point derivative at the new pose by %.3g" % (vi, dmax))
        # the matrices handed out first are still what they were (later evaluations, also of OTHER edges, must not overwrite them)
        if not msgs:
            other, _ = build_edge(case)
            np.asarray(other.vertices[0].pose)[...] = I.comps(other.vertices[1].pose) if case["edge"] == "odo" else I.comps(other.vertices[0].pose)
            other.calc_jacobians()
            for vi in (0, 1):
                if not np.array_equal(np.asarray(jacs[vi], dtype=float), held[vi]):
                    msgs.append("the Jacobian %d returned earlier was overwritten by later calc_jacobians() calls (shared result buffer)" % vi)
        return msgs, ratio, nontriv, nops
    except Exception as ex:
        return ["%s raised %s: %s" % (case["edge"], type(ex).__name__, ex)], float("inf"), False, 1
