"""C06 - fixed vertices never move; free vertices solve the reduced problem.
Engine E1 over configurations + deviation-bounded fault enumeration at the linear-solver seam + E2 call histories."""
import itertools

import numpy as np

from .. import alphabets as A
from .. import families as F
from .. import gbuild as GB
from .. import impl as I
from ..ref import geom as G
from ..ref import gn, wls
from ..runner import Acc

ID = "C06"

META = {
    "rule": "sub-products: A = family F(n,m) WITHOUT well-posedness filter x every fixed subset (none, one, several, all, fixed landmarks, isolated fixed vertices) x "
    "fix_first_pose x max_iter alphabet (SE(3) graphs also with vertex quaternions whose norm is off by 3e-5..1e-4: fixed-pose and flag oracles only); D = far-off initial guesses (diverging runs) x every fixed subset x max_iter 20; S = solver-fault scripts: every placement of 0, 1 and 2 "
    "deviating answers {all-NaN, garbage (1e300/inf) in the free rows, raise} within 5 solver calls x spanning graphs x every non-empty fixed subset; N = every edge replaced by its numerical-Jacobian twin (custom-edge path) x every non-empty fixed subset, one iteration vs the reduced step of the analytic graph; P = all vertices initialised from ONE shared pose object x every fixed subset (compared bitwise with a twin that uses distinct equal objects); Y = deepcopy / pickle round trip of the graph, the copy is optimised (same marks, same result as the original construction, original untouched); H = histories of 2..3 "
    "consecutive optimize calls with every (fixed subset, fix_first_pose) chosen per call. Oracles: fixed poses bitwise unchanged in every outcome incl. exceptions; fixed flags exactly "
    "as documented; well-posed reduced problems: free vertices = reference reduced Gauss-Newton step (1 iteration) / closed-form reduced WLS optimum (R^n) and all poses finite. "
    "non-trivial = at least one fixed vertex AND (a free vertex moved or the solve failed)",
    "assumptions": [
        "solver seam = module global graphslam.graph.spsolve; if it is not called the fault sub-product is skipped and evidence says solver_seam_active=false",
        "fault answers are restricted to what a sparse direct solver can produce (NaN vector for singular systems, garbage in coupled rows, an exception); a solver that returns non-zero for decoupled identity rows is not modelled",
    ],
    "required_classes": ["inplace_position_edge", "copied_graph", "fixed_pose_reassigned_between_calls", "nonunit_quaternion_vertices", "numeric_twin_edges", "shared_pose_object", "all_fixed", "none_fixed", "isolated_fixed_vertex", "fixed_landmark", "singular_natural", "several_fixed", "fault:nan", "fault:raise", "fault:garbage", "history", "diverged_or_nonfinite", "ffp_true", "ffp_false", "reduced_step_checked", "reduced_wls_checked"],
    "bounds": {"quick": "A: n=2 m<=2, n=3 m<=2, max_iter in {1,3}; S: 5 solver calls, <=2 deviations; H: 2 calls", "thorough": "A: n=2 m<=3, n=3 m<=2 x 3 vertex orders, max_iter in {1,2,3,5,20}; H: 3 calls"},
}


def _iters(tier):
    return (1, 3) if tier == "quick" else (1, 2, 3, 5, 20)


def chunks(tier, seed):
    out = []
    for n in (2, 3):
        for ti in range(len(F.type_multisets(n))):
            out.append(("A", n, ti))
            out.append(("D", n, ti))
    for ti in range(len(F.type_multisets(3))):
        out.append(("S", 3, ti))
        out.append(("H", 3, ti))
    for n in (2, 3):
        for ti, types in enumerate(F.type_multisets(n)):
            if len(set(types)) == 1:
                out.append(("P", n, ti))
            out.append(("N", n, ti))
    return out


def _spanning(types, cands):
    """first candidate multiset (size 2) that connects all three vertices."""
    for ms in F.edge_multisets(len(cands), 2):
        touched = set()
        for k in ms:
            touched.update(cands[k]["ids"])
        if len(ms) == 2 and touched == set(range(len(types))):
            return ms
    return None


def fault_scripts(ncalls=5):
    """all scripts with 0, 1, 2 deviations from the default answer 'N' within ncalls solver calls."""
    devs = ("nan", "garbage", "raise")
    out = [["N"] * ncalls]
    for i in range(ncalls):
        for a in devs:
            s = ["N"] * ncalls
            s[i] = a
            out.append(s)
    for i, j in itertools.combinations(range(ncalls), 2):
        for a in devs:
            for b in devs:
                s = ["N"] * ncalls
                s[i], s[j] = a, b
                out.append(s)
    return out


def run_chunk(chunk, tier, seed):
    sub, n, ti = chunk
    acc = Acc(ID, signature)
    types = F.type_multisets(n)[ti]
    cands = F.candidate_edges(types, seed)
    if sub == "A":
        m = 2 if (tier == "quick" or n == 3) else 3
        vos = [list(range(n)), list(range(n))[::-1]] + ([[1, 2, 0]] if (n == 3 and tier == "thorough") else [])
        for ms in F.edge_multisets(len(cands), m):
            for fixed in itertools.product((False, True), repeat=n):
                for ffp in (False, True):
                    for mi in _iters(tier):
                        for vo in vos:
                            if tier == "quick" and vo != vos[0] and mi != 1:
                                continue  # quick: permuted vertex lists with a single iteration only
                            _do(acc, {"t": "A", "types": types, "seed": seed, "edges": ms, "fixed": list(fixed), "ffp": ffp, "max_iter": mi, "vorder": vo, "far": False})
                            if "SE3" in types and vo == vos[0] and (any(fixed) or ffp):
                                _do(acc, {"t": "A", "types": types, "seed": seed, "edges": ms, "fixed": list(fixed), "ffp": ffp, "max_iter": mi, "vorder": vo, "far": False, "nonunit": True})
    elif sub == "D":
        for ms in F.edge_multisets(len(cands), 1 if n == 3 else 2):
            for fixed in itertools.product((False, True), repeat=n):
                for ffp in (False, True):
                    _do(acc, {"t": "A", "types": types, "seed": seed, "edges": ms, "fixed": list(fixed), "ffp": ffp, "max_iter": 20, "vorder": list(range(n)), "far": True})
    elif sub == "S":
        ms = _spanning(types, cands)
        if ms is None:
            return acc
        for fixed in itertools.product((False, True), repeat=n):
            if not any(fixed):
                continue
            for script in fault_scripts(5):
                _do(acc, {"t": "S", "types": types, "seed": seed, "edges": ms, "fixed": list(fixed), "ffp": False, "max_iter": 5, "vorder": list(range(n)), "far": False, "script": script})
    elif sub == "P":
        # all vertices are initialised from ONE shared pose object (e.g. a single identity() instance): legal, poses are values
        for ms in F.edge_multisets(len(cands), 2):
            for fixed in itertools.product((False, True), repeat=n):
                for ffp in (False, True):
                    _do(acc, {"t": "P", "types": types, "seed": seed, "edges": ms, "fixed": list(fixed), "ffp": ffp, "max_iter": 2, "vorder": list(range(n))})
    elif sub == "N":
        # every edge replaced by its numerical-Jacobian twin (custom-edge code path): fixed vertices listed first / middle / last in the edges
        for ms in F.edge_multisets(len(cands), 2):
            for fixed in itertools.product((False, True), repeat=n):
                if any(fixed):
                    _do(acc, {"t": "N", "types": types, "seed": seed, "edges": ms, "fixed": list(fixed), "ffp": False, "max_iter": 1, "vorder": list(range(n))})
    elif sub == "H":
        ms = _spanning(types, cands)
        if ms is None:
            return acc
        calls = 2 if tier == "quick" else 3
        opts = [(list(f), ffp) for f in itertools.product((False, True), repeat=n) for ffp in (False, True)]
        for hist in itertools.product(opts, repeat=calls):
            _do(acc, {"t": "H", "types": types, "seed": seed, "edges": ms, "vorder": list(range(n)), "hist": [[f, p] for f, p in hist]})
            if any(hist[-1][0]) and len({tuple(h[0]) for h in hist}) == 1:
                # the same vertices stay fixed, but the caller RE-ASSIGNS their poses between the calls (a fixed pose is a constant only within a call)
                _do(acc, {"t": "H", "types": types, "seed": seed, "edges": ms, "vorder": list(range(n)), "hist": [[f, p] for f, p in hist], "rebind_fixed": True})
        # copies: deepcopy / pickle round trip of the whole graph, then the COPY is optimised
        for fixed in itertools.product((False, True), repeat=n):
            if any(fixed):
                for how in ("deepcopy", "pickle"):
                    _do(acc, {"t": "Y", "types": types, "seed": seed, "edges": ms, "vorder": list(range(n)), "fixed": list(fixed), "how": how})
    return acc


def _do(acc, case):
    acc.evals += 1
    acc.states += 1
    msgs, info = _eval(case)
    acc.transitions += info.get("calls", 1)
    acc.traces += info.get("ref_compared", 0)
    for c in info.get("classes", ()):
        acc.cls(c)
    acc.outcome(info.get("outcome", "?"))
    if info.get("nontrivial"):
        acc.nontrivial += 1
    acc.ratio(info.get("ratio", 0.0))
    if "seam" in info:
        acc.extra["solver_seam_calls"] = acc.extra.get("solver_seam_calls", 0) + info["seam"]
    if msgs:
        acc.violation(case, msgs)
    acc.sample(case, 1)


def eval_case(case):
    return _eval(case)[0]


def signature(case, msgs):
    return {"t": case.get("t"), "fixed_became_nan": any("fixed vertex" in m and "nan" in m.lower() for m in msgs)}


def _spec(case, fixed):
    spec = F.make_spec(case["types"], case["seed"], case["edges"], fixed, case["vorder"], None, None)
    if case.get("nonunit"):
        # SE(3) vertex quaternions that are only approximately unit (as read from a file written with 4-5 decimals)
        for k, v in enumerate(spec["vertices"]):
            if v["kind"] == "SE3":
                v["pose"] = v["pose"][:3] + [x * (1.0 + 3e-5 * (k + 1)) for x in v["pose"][3:]]
    if case.get("far"):
        for k, v in enumerate(spec["vertices"]):
            d = G.DIM[v["kind"]]
            v["pose"] = [x * 1e3 * (k + 1) + 7.0 for x in v["pose"][:d]] + v["pose"][d:]
    return spec


class _Seam:
    """Scripted environment answers at graphslam.graph.spsolve."""

    def __init__(self, script, fixed_rows):
        import graphslam.graph as gg

        self.gg = gg
        self.orig = getattr(gg, "spsolve", None)
        self.script = script
        self.calls = 0
        self.fixed_rows = fixed_rows

    def __enter__(self):
        if self.orig is None:
            return self
        orig = self.orig

        def fake(Hm, b, *a, **kw):
            k = self.calls
            self.calls += 1
            ans = self.script[k] if k < len(self.script) else "N"
            if ans == "N":
                return orig(Hm, b, *a, **kw)
            if ans == "nan":
                return np.full(len(b), np.nan)
            if ans == "raise":
                raise RuntimeError("injected solver failure")
            x = np.full(len(b), 1e300)
            x[::2] = np.inf
            x[self.fixed_rows] = 0.0
            return x

        self.gg.spsolve = fake
        return self

    def __exit__(self, *a):
        if self.orig is not None:
            self.gg.spsolve = self.orig


def _eval(case):
    try:
        if case["t"] == "H":
            return _eval_hist(case)
        if case["t"] == "P":
            return _eval_shared(case)
        if case["t"] == "N":
            return _eval_numeric(case)
        if case["t"] == "Y":
            return _eval_copy(case)
        return _eval_single(case)
    except Exception as ex:
        import traceback

        return ["harness-visible exception %s: %s | %s" % (type(ex).__name__, ex, traceback.format_exc()[-500:])], {"outcome": "exception"}


def _fixed_rows(verts, fixed_eff):
    rows = []
    o = 0
    for v, f in zip(verts, fixed_eff):
        d = v.pose.COMPACT_DIMENSIONALITY
        if f:
            rows.extend(range(o, o + d))
        o += d
    return rows


def _check_fixed(msgs, before, after, fixed_eff, what):
    for i, f in enumerate(fixed_eff):
        if f and (after[i][2] != before[i][2] and not (_bits(after[i][2]) == _bits(before[i][2]))):
            msgs.append("%s: fixed vertex id %r moved: %r -> %r" % (what, before[i][0], before[i][2], after[i][2]))


def _bits(c):
    return np.array(c, dtype=np.float64).tobytes()


def _eval_single(case):
    msgs = []
    spec = _spec(case, case["fixed"])
    g, verts, edges = GB.build(spec)
    n = len(verts)
    flags0 = [bool(v.fixed) for v in verts]
    fixed_eff = list(flags0)
    if case["ffp"]:
        fixed_eff[0] = True
    classes = ["ffp_true" if case["ffp"] else "ffp_false"]
    if all(fixed_eff):
        classes.append("all_fixed")
    if not any(fixed_eff):
        classes.append("none_fixed")
    if sum(fixed_eff) >= 2:
        classes.append("several_fixed")
    touched = {i for e in spec["edges"] for i in e["ids"]}
    if any(f and v["id"] not in touched for f, v in zip(fixed_eff, spec["vertices"])):
        classes.append("isolated_fixed_vertex")
    for e in spec["edges"]:
        if e["type"] == "lm":
            li = [k for k, v in enumerate(spec["vertices"]) if v["id"] == e["ids"][1]][0]
            if fixed_eff[li]:
                classes.append("fixed_landmark")
    ref = gn.step(verts, edges, fixed_eff)
    before = GB.snapshot(verts)
    script = case.get("script")
    outcome = "returned"
    seam_calls = None
    res = None
    seam = None
    for a in set(script or ()):
        if a != "N":
            classes.append("fault:" + a)
    try:
        if script:
            with _Seam(script, _fixed_rows(verts, fixed_eff)) as seam:
                res = GB.optimize(g, tol=0.0, max_iter=case["max_iter"], fix_first_pose=case["ffp"])
            seam_calls = seam.calls
        else:
            res = GB.optimize(g, max_iter=case["max_iter"], fix_first_pose=case["ffp"])
    except Exception as ex:
        outcome = "raised:" + type(ex).__name__
    after = GB.snapshot(verts)
    if seam is not None:
        seam_calls = seam.calls
    if script and seam_calls == 0:
        # the seam is gone (refactored import): nothing was injected, this case says nothing
        return [], {"outcome": "seam-inactive", "seam": 0, "classes": classes}
    # (a) fixed vertices: bitwise unchanged in every outcome
    _check_fixed(msgs, before, after, fixed_eff, "optimize(max_iter=%d, fix_first_pose=%s)%s [%s]" % (case["max_iter"], case["ffp"], " under solver script %s" % script if script else "", outcome))
    # (b) flags
    flags1 = [bool(v.fixed) for v in verts]
    exp_flags = list(flags0)
    if case["ffp"]:
        exp_flags[0] = True
    if flags1 != exp_flags:
        msgs.append("fixed flags after optimize(fix_first_pose=%s): %r, expected %r (before: %r)" % (case["ffp"], flags1, exp_flags, flags0))
    nonfinite = any(not all(np.isfinite(a[2])) for a in after)
    if nonfinite:
        classes.append("diverged_or_nonfinite")
    if not ref["topo_ok"] and not script:
        classes.append("singular_natural")
    ratio = 0.0
    ref_compared = 0
    moved = any(after[i][2] != before[i][2] for i in range(n))
    # (c)/(d) well-posed reduced problem: free vertices solve it, everything finite
    if case.get("nonunit"):
        classes.append("nonunit_quaternion_vertices")
    if not script and not case.get("far") and not case.get("nonunit") and ref["wellposed"] and outcome == "returned":
        if case["max_iter"] == 1:
            ref_compared += 1
            classes.append("reduced_step_checked")
            dxn = max([float(np.max(np.abs(d))) for d in ref["dx"] if d is not None] or [0.0])
            tsc = 1.0 + max(max(abs(x) for x in b[2][: G.DIM[b[1]]]) for b in before)
            tol = 1e-9 * (tsc + dxn) * max(1.0, ref["cond"] / 1e3)
            # rebuild expected from a fresh copy (verts were moved by optimize)
            g2, verts2, _ = GB.build(spec)
            for i, v in enumerate(verts2):
                if fixed_eff[i]:
                    continue
                exp = I.comps(v.pose + ref["dx"][i])
                if not all(np.isfinite(after[i][2])):
                    msgs.append("well-posed reduced problem (fixed=%r) but vertex id %r is not finite after one iteration" % (fixed_eff, before[i][0]))
                    continue
                d = G.phys_diff(before[i][1], after[i][2], exp)
                ratio = max(ratio, d / tol)
                if d > tol:
                    msgs.append("free vertex id %r does not take the reduced Gauss-Newton step: got %r, expected %r" % (before[i][0], after[i][2], exp))
        all_rn = all(v["kind"] in ("R2", "R3") for v in spec["vertices"]) and all(e["type"] in ("odo", "lm", "prior") for e in spec["edges"])
        if all_rn:
            ref_compared += 1
            classes.append("reduced_wls_checked")
            sol, chi2s, cond = wls.solve(spec, fixed_eff)
            if cond < 1e6:
                # linear problem: the first step lands on the optimum, whatever max_iter
                for i, v in enumerate(spec["vertices"]):
                    if fixed_eff[i]:
                        continue
                    d = float(np.max(np.abs(np.array(after[i][2]) - sol[v["id"]])))
                    tol = 1e-7 * (1.0 + float(np.max(np.abs(sol[v["id"]]))))
                    ratio = max(ratio, d / tol)
                    if not d <= tol:
                        msgs.append("R^n graph, fixed=%r: free vertex id %r = %r but the reduced WLS optimum is %r" % (fixed_eff, v["id"], after[i][2], sol[v["id"]].tolist()))
                if res is not None and not abs(res.final_chi2 - chi2s) <= 1e-7 * (1.0 + chi2s):
                    msgs.append("R^n graph: final_chi2 %.17g but the reduced optimum has chi2 %.17g" % (res.final_chi2, chi2s))
        elif case["max_iter"] == 1 and nonfinite:
            msgs.append("well-posed reduced problem but poses are not finite")
    info = {"outcome": outcome + ("/nonfinite" if nonfinite else ""), "classes": classes, "ratio": ratio, "ref_compared": ref_compared, "calls": 1, "nontrivial": any(fixed_eff) and (moved or nonfinite or outcome != "returned")}
    if seam_calls is not None:
        info["seam"] = seam_calls
    return msgs, info


def _eval_hist(case):
    msgs = []
    n = len(case["types"])
    spec = F.make_spec(case["types"], case["seed"], case["edges"], [False] * n, case["vorder"], None, None)
    g, verts, edges = GB.build(spec)
    flags = [False] * n
    outc = []
    for k, (fixed, ffp) in enumerate(case["hist"]):
        if k >= 1 and case.get("rebind_fixed"):
            for v, f in zip(verts, fixed):
                if f:
                    d = np.zeros(v.pose.COMPACT_DIMENSIONALITY)
                    d[0] = 0.25
                    d[-1] += 0.125
                    v.pose = v.pose + d
        for v, f in zip(verts, fixed):
            v.fixed = bool(f)
        flags = [bool(f) for f in fixed]
        eff = list(flags)
        if ffp:
            eff[0] = True
        before = GB.snapshot(verts)
        try:
            GB.optimize(g, tol=0.0, max_iter=2, fix_first_pose=ffp)
            outc.append("r")
        except Exception as ex:
            outc.append("x")
        after = GB.snapshot(verts)
        _check_fixed(msgs, before, after, eff, "call %d of history %r" % (k + 1, case["hist"]))
        f1 = [bool(v.fixed) for v in verts]
        if f1 != eff:
            msgs.append("call %d: fixed flags %r, expected %r" % (k + 1, f1, eff))
        # well-posed call from a finite state: the free vertices must have moved to finite poses
        finite_before = all(all(np.isfinite(b[2])) for b in before)
        if finite_before:
            g2, v2, e2 = GB.build({"vertices": [dict(v, pose=b[2], fixed=e_) for v, b, e_ in zip(spec["vertices"], before, eff)], "edges": spec["edges"]})
            r = gn.step(v2, e2, eff)
            if r["wellposed"]:
                GB.optimize(g2, tol=0.0, max_iter=2, fix_first_pose=False)
                exp = GB.snapshot(v2)
                for i in range(n):
                    if exp[i][2] != after[i][2] and _bits(exp[i][2]) != _bits(after[i][2]):
                        msgs.append("call %d with fixed=%r: vertex id %r = %r but a fresh graph in the same state gives %r (state leaked between calls)" % (k + 1, eff, before[i][0], after[i][2], exp[i][2]))
                        break
    return msgs, {"outcome": "hist:" + "".join(outc), "classes": ["history"] + (["fixed_pose_reassigned_between_calls"] if case.get("rebind_fixed") else []), "calls": len(case["hist"]), "ref_compared": len(case["hist"]), "nontrivial": True}


def _eval_copy(case):
    """the graph is copied with the standard library (deepcopy / pickle); the copy carries the same marks and behaves like a fresh graph"""
    import copy
    import pickle

    msgs = []
    n = len(case["types"])
    spec = F.make_spec(case["types"], case["seed"], case["edges"], case["fixed"], case["vorder"], None, None)
    g, verts, edges = GB.build(spec)
    orig_bits = [_bits(a[2]) for a in GB.snapshot(verts)]
    try:
        g2 = copy.deepcopy(g) if case["how"] == "deepcopy" else pickle.loads(pickle.dumps(g))
    except Exception as ex:
        return ["%s of a graph raised %s: %s" % (case["how"], type(ex).__name__, ex)], {"outcome": "copy-raised", "classes": ["copied_graph"], "calls": 1, "nontrivial": True}
    v2 = I.graph_vertices(g2)
    flags = [bool(v.fixed) for v in v2]
    if flags != [bool(f) for f in case["fixed"]]:
        msgs.append("%s of the graph: fixed flags of the copy are %r, the original has %r" % (case["how"], flags, case["fixed"]))
    before = GB.snapshot(v2)
    outcome = "r"
    try:
        GB.optimize(g2, tol=0.0, max_iter=2, fix_first_pose=False)
    except Exception:
        outcome = "x"
    after = GB.snapshot(v2)
    _check_fixed(msgs, before, after, [bool(f) for f in case["fixed"]], "optimize on a %s of the graph" % case["how"])
    g3, v3, _ = GB.build(spec)
    try:
        GB.optimize(g3, tol=0.0, max_iter=2, fix_first_pose=False)
    except Exception:
        pass
    exp = GB.snapshot(v3)
    for i in range(n):
        if exp[i][2] != after[i][2] and _bits(exp[i][2]) != _bits(after[i][2]):
            msgs.append("optimize on a %s of the graph: vertex id %r = %r but the original construction gives %r" % (case["how"], before[i][0], after[i][2], exp[i][2]))
            break
    if [_bits(a[2]) for a in GB.snapshot(verts)] != orig_bits:
        msgs.append("optimizing the copy changed the original graph")
    return msgs, {"outcome": "copy:" + outcome, "classes": ["copied_graph"], "calls": 1, "ref_compared": 1, "nontrivial": True}


def _eval_shared(case):
    msgs = []
    n = len(case["types"])
    spec = F.make_spec(case["types"], case["seed"], case["edges"], case["fixed"], case["vorder"], None, None)
    p0 = spec["vertices"][0]["pose"]
    for v in spec["vertices"]:
        v["pose"] = list(p0)
    # twin with distinct (equal) pose objects
    g2, v2, _ = GB.build(spec)
    g1, v1, _ = GB.build(spec)
    shared = v1[0].pose
    for v in v1:
        v.pose = shared
    eff = [bool(f) for f in case["fixed"]]
    if case["ffp"]:
        eff[0] = True
    before = GB.snapshot(v1)
    out = []
    for g in (g1, g2):
        try:
            GB.optimize(g, tol=0.0, max_iter=case["max_iter"], fix_first_pose=case["ffp"])
            out.append("r")
        except Exception as ex:
            out.append("x:" + type(ex).__name__)
    a1, a2 = GB.snapshot(v1), GB.snapshot(v2)
    _check_fixed(msgs, before, a1, eff, "optimize on vertices that share one pose object")
    if out[0] != out[1]:
        msgs.append("sharing one pose object between the vertices changes the outcome: %s vs %s" % (out[0], out[1]))
    else:
        for i in range(n):
            if _bits(a1[i][2]) != _bits(a2[i][2]) and a1[i][2] != a2[i][2]:
                msgs.append("vertices initialised from ONE shared pose object: vertex id %r ends at %r, with distinct equal objects at %r" % (a1[i][0], a1[i][2], a2[i][2]))
                break
    moved = any(a1[i][2] != before[i][2] for i in range(n))
    return msgs, {"outcome": "shared:" + out[0], "classes": ["shared_pose_object"], "calls": 2, "ref_compared": 1, "nontrivial": moved and any(eff)}


def _eval_numeric(case):
    """numeric-Jacobian twins of every edge: fixed vertices stay put, free vertices take the reduced step of the ANALYTIC graph."""
    import copy as _c

    msgs = []
    spec = F.make_spec(case["types"], case["seed"], case["edges"], case["fixed"], case["vorder"], None, None)
    g, verts, edges = GB.build(spec)
    eff = [bool(f) for f in case["fixed"]]
    ref = gn.step(verts, edges, eff)
    nspec = _c.deepcopy(spec)
    for e in nspec["edges"]:
        e["type"] = "num" + e["type"]
    gN, vN, eN = GB.build(nspec)
    before = GB.snapshot(vN)
    out = "returned"
    try:
        GB.optimize(gN, max_iter=1, fix_first_pose=False)
    except Exception as ex:
        out = "raised:" + type(ex).__name__
    after = GB.snapshot(vN)
    _check_fixed(msgs, before, after, eff, "optimize(max_iter=1) on numerical-Jacobian edges [%s]" % out)
    ratio = 0.0
    compared = 0
    if ref["wellposed"] and ref["cond"] < 1e4:
        compared = 1
        if out != "returned":
            msgs.append("well-posed reduced problem on numerical-Jacobian edges: optimize %s" % out)
        dxn = max([float(np.max(np.abs(d))) for d in ref["dx"] if d is not None] or [0.0])
        tol = 2e-4 * (1.0 + dxn) * max(1.0, ref["cond"] / 10.0)
        for i, v in enumerate(verts):
            if eff[i]:
                continue
            if not all(np.isfinite(after[i][2])):
                msgs.append("numerical-Jacobian edges, fixed=%r: free vertex id %r is not finite after one iteration of a well-posed problem" % (eff, before[i][0]))
                continue
            exp = I.comps(v.pose + ref["dx"][i])
            d = G.phys_diff(before[i][1], after[i][2], exp)
            ratio = max(ratio, d / tol)
            if d > tol:
                msgs.append("numerical-Jacobian edges, fixed=%r: free vertex id %r = %r, reduced Gauss-Newton step of the analytic graph gives %r (|diff| %.3g > %.3g)" % (eff, before[i][0], after[i][2], exp, d, tol))
    # a user-defined unary edge that finishes its error computation IN the array handed out by pose.position
    # (err = pose.position; err -= z), attached to every FIXED vertex: whatever such an edge does to its scratch array,
    # a fixed pose stays bit-identical
    class _InPlacePositionPrior(I.BaseEdge):
        def is_valid(self):
            return self._is_valid()

        def calc_error(self):
            err = self.vertices[0].pose.position
            err -= np.asarray(self.estimate)[: len(err)]
            return np.asarray(err, dtype=float)

    g3, v3, e3 = GB.build(spec, with_graph=False)
    for v, f in zip(v3, eff):
        if f:
            d_ = len(np.asarray(v.pose.position))
            e3.append(_InPlacePositionPrior([v.id], np.eye(d_), np.array([0.75, -0.5, 0.25][:d_])))
    before3 = GB.snapshot(v3)
    out3 = "returned"
    try:
        g3 = I.Graph(e3, v3)
        g3.calc_chi2()
        GB.optimize(g3, max_iter=2, fix_first_pose=False)
    except Exception as ex:
        out3 = "raised:" + type(ex).__name__
    _check_fixed(msgs, before3, GB.snapshot(v3), eff, "optimize(max_iter=2) with a unary edge that works in place on pose.position [%s]" % out3)
    return msgs, {"outcome": "numeric:" + out, "classes": ["numeric_twin_edges", "inplace_position_edge"], "calls": 2, "ref_compared": compared, "ratio": ratio, "nontrivial": compared == 1}
