"""C14 - .g2o import is faithful to the file (engine E1: exhaustive over line orders, junk placements, number
formats, separators, line endings, loader entry points; oracle = independent tokenizer)."""
import itertools
import logging
import os
import shutil
import tempfile

import numpy as np

from .. import g2oio
from .. import impl as I
from ..ref import g2o as RG
from ..runner import Acc
from ..custom_edges import _Custom

ID = "C14"

META = {
    "rule": "base files covering all 10 vocabulary tags + a registered custom tag; (perm) every legal order of the <=7 lines of each base file (offset parameter before the "
    "edge that uses it); (junk) every placement of 0, 1 and 2 lines from {blank, spaces only, #comment, free text, near-miss tags VERTEX_SE2X / EDGE_SE2_XYZ / VERTEX_SE3 / "
    "EDGE_SE3:QUATX, leading-space tag, comment / note lines that quote a complete PARAMS / VERTEX / EDGE line after their first character} at every position; (fmt) every numeric field of every line x 12 number formats float() accepts (incl. digit-group underscores); (sparse) every zero / non-zero pattern of the upper-triangular information entries of each edge tag (6x6: <= 2 non-zeros); (sep) separators x line endings x the "
    "six loader entry points; (custom2) two registered custom edge types: every order of a 6-line file x both registration orders; (custom3) a registered custom type that resolves its offset through the file's PARAMS_SE3OFFSET lines: every legal order of a 7-line file. Oracle: vf/ref/g2o.py parse of the same text; one object per vocabulary line in file order with exactly float(token), symmetric information, offsets "
    "through the parameter id; warnings of logger graphslam.graph counted. non-trivial = file differs from the canonical rendering of its base (order, junk, format or separators)",
    "assumptions": [
        "well-formed files: tag at column 0, blank-separated fields, integer ids; inf/nan excluded",
        "warnings: at least one per unsupported non-blank line and at most one more per blank line (the documentation is silent on blank lines)",
        "a custom edge type's own from_g2o is harness code; what is checked is its dispatch (one object per line, in order, unaffected by other lines)",
    ],
    "required_classes": ["duplicate_line", "huge_ids", "two_custom_types", "perm", "junk1", "junk2", "fmt", "sep", "loader", "crlf", "near_miss_tag", "custom_tag_without_registration", "ten_thousand_lines", "information_with_zeros", "embedded_tag", "custom_type_with_parameters", "custom_tag", "param_resolved"],
    "bounds": {"quick": "all 5040 + 2520 line orders; junk <= 2 insertions into 2 base files; 10 formats x every field; 3 separators x 3 endings x 6 loaders", "thorough": "same + junk pairs on every rotation of the base files + 3 insertions of the near-miss tags"},
}


class CustomPrior(_Custom):
    """registered custom edge: CUSTOM_PRIOR id e0 e1 I11 I12 I22"""

    def calc_error(self):
        return self.vertices[0].pose.to_compact()[:2] - self.estimate

    @classmethod
    def from_g2o(cls, line, g2o_params_or_none=None):
        if line.startswith("CUSTOM_PRIOR "):
            t = line.split()
            vals = [float(x) for x in t[2:]]
            om = np.array([[vals[2], vals[3]], [vals[3], vals[4]]])
            return cls([int(t[1])], om, np.array(vals[:2]))
        return None


class CustomPair(_Custom):
    """second registered custom edge: CUSTOM_PAIR id1 id2 e0 I11"""

    def calc_error(self):
        return np.array([float(np.linalg.norm(self.vertices[0].pose.position - self.vertices[1].pose.position)) - float(self.estimate[0])])

    @classmethod
    def from_g2o(cls, line, g2o_params_or_none=None):
        if line.startswith("CUSTOM_PAIR "):
            t = line.split()
            return cls([int(t[1]), int(t[2])], np.array([[float(t[4])]]), np.array([float(t[3])]))
        return None


class CustomLm3(_Custom):
    """registered custom edge that resolves a sensor offset through the file's parameters, like EDGE_SE3_TRACKXYZ does:
    CUSTOM_LM3 idpose idpoint paramid e0 e1 e2 I11"""

    offset = None

    def calc_error(self):
        return np.array([float(np.linalg.norm(((self.vertices[0].pose + self.offset).inverse + self.vertices[1].pose) - self.estimate[1:]))])

    @classmethod
    def from_g2o(cls, line, g2o_params_or_none=None):
        if line.startswith("CUSTOM_LM3 "):
            t = line.split()
            e = cls([int(t[1]), int(t[2])], np.array([[float(t[7])]]), np.array([float(x) for x in t[3:7]]))
            e.offset = g2o_params_or_none[("PARAMS_SE3OFFSET", int(t[3]))].value
            return e
        return None


CUSTOM = {"CUSTOM_PRIOR": (1, 2, 2), "CUSTOM_PAIR": (2, 1, 1), "CUSTOM_LM3": (2, 4, 1)}
CUSTOM_LINES = [
    ["VERTEX_SE2", "0", "0.1", "-0.2", "0.3"],
    ["VERTEX_XY", "2", "4.0", "-5.5"],
    ["CUSTOM_PRIOR", "0", "0.5", "-0.5", "1.0", "0.5", "2.0"],
    ["CUSTOM_PAIR", "0", "2", "1.25", "3.0"],
    ["CUSTOM_PRIOR", "2", "0.25", "0.75", "2.0", "0.0", "1.0"],
    ["EDGE_SE2_XY", "0", "2", "0.7", "-0.8", "7.25", "8.25", "9.25"],
]

Q_A = ["0.18257418583505536", "-0.3651483716701107", "0.5477225575051661", "0.7302967433402214"]
Q_B = ["-0.5", "0.5", "-0.5", "-0.5"]
Q_UNNORM = ["0.2", "-0.4", "0.6", "-0.8"]  # measurement quaternion: not unit, w < 0 -> the reader renormalises


def custom3_lines():
    return [
        ["PARAMS_SE3OFFSET", "7", "0.1", "0.2", "0.3"] + Q_B,
        ["PARAMS_SE3OFFSET", "2", "-0.3", "0.0", "0.6"] + Q_A,
        ["VERTEX_SE3:QUAT", "10", "1.0", "-2.0", "3.0"] + Q_A,
        ["VERTEX_TRACKXYZ", "7", "9.0", "8.0", "-7.0"],
        ["CUSTOM_LM3", "10", "7", "7", "1.0", "2.0", "3.0", "2.5"],
        ["CUSTOM_LM3", "10", "7", "2", "0.5", "0.25", "-1.0", "1.5"],
        ["EDGE_SE3_TRACKXYZ", "10", "7", "2", "1.0", "2.0", "3.0", "1.5", "0.25", "0.125", "2.5", "0.375", "3.5"],
    ]


def legal3(lines):
    seen = set()
    for l in lines:
        if l[0] == "PARAMS_SE3OFFSET":
            seen.add(l[1])
        elif l[0] in ("CUSTOM_LM3", "EDGE_SE3_TRACKXYZ") and l[3] not in seen:
            return False
    return True


def base_files():
    b1 = [
        ["VERTEX_SE2", "0", "0.1", "-0.2", "0.3"],
        ["VERTEX_SE2", "1", "1.5", "2.5", "-3.0"],
        ["VERTEX_XY", "2", "4.0", "-5.5"],
        ["EDGE_SE2", "0", "1", "1.1", "1.2", "0.4", "1.5", "2.5", "3.5", "4.5", "5.5", "6.5"],
        ["EDGE_SE2_XY", "1", "2", "0.7", "-0.8", "7.25", "8.25", "9.25"],
        ["PARAMS_SE2OFFSET", "0", "0.25", "0.5", "0.75"],
        ["CUSTOM_PRIOR", "0", "0.5", "-0.5", "1.0", "0.5", "2.0"],
    ]
    info21 = [str(10.0 + 0.5 * k) for k in range(21)]
    b2 = [
        ["PARAMS_SE3OFFSET", "3", "0.1", "0.2", "0.3"] + Q_B,  # referenced by the landmark edge; qw < 0
        ["VERTEX_SE3:QUAT", "10", "1.0", "-2.0", "3.0"] + Q_A,
        ["VERTEX_SE3:QUAT", "-4", "0.5", "0.25", "-0.125"] + Q_B,
        ["VERTEX_TRACKXYZ", "7", "9.0", "8.0", "-7.0"],
        ["EDGE_SE3:QUAT", "10", "-4", "0.3", "0.2", "0.1"] + Q_UNNORM + info21,
        ["EDGE_SE3_TRACKXYZ", "-4", "7", "3", "1.0", "2.0", "3.0", "1.5", "0.25", "0.125", "2.5", "0.375", "3.5"],
        ["PARAMS_SE3OFFSET", "5", "-0.3", "0.0", "0.6"] + Q_A,
    ]
    return {"b1": b1, "b2": b2}


JUNK = [
    ("blank", ""),
    ("spaces", "    "),
    ("comment", "# VERTEX_SE2 99 1 2 3"),
    ("text", "this line is not part of the vocabulary 1 2 3"),
    ("near_miss", "VERTEX_SE2X 98 1.0 2.0 3.0"),
    ("near_miss", "EDGE_SE2_XYZ 0 1 0.5 0.5 1 0 1"),
    ("near_miss", "VERTEX_SE3 97 1 2 3 0 0 0 1"),
    ("near_miss", "EDGE_SE3:QUATX 10 -4 1 2 3 0 0 0 1"),
    ("near_miss", "FIX 0"),
    # lines that merely QUOTE a vocabulary line after their first character (comments, notes): still not part of the vocabulary
    ("embedded", "# old calibration was: PARAMS_SE3OFFSET 3 9 9 9 0 0 0 1"),
    ("embedded", "# PARAMS_SE2OFFSET 0 1 2 3"),
    ("embedded", "note: VERTEX_SE2 55 1 2 3"),
    ("embedded", "#EDGE_SE2_XY 1 2 0.1 0.1 1 0 1"),
    ("dup_line", None),  # an exact duplicate of the first EDGE line of the base file: two lines, two objects
]
SPARSE_TAGS = ("EDGE_SE2", "EDGE_SE2_XY", "EDGE_SE3_TRACKXYZ", "EDGE_SE3:QUAT")
BIG_IDS = ["9007199254740993", "-9007199254740993", "9223372036854775807", "4611686018427387909", "+17", "0042"]
FORMATS = ["1", "1.0", "+1.0", "1e0", "1E+0", ".5", "5.", "-0.0", "0.12345678901234567", "1e-300", "1_0.5", "1_0e-1"]


def legal(order, base):
    """an offset parameter must precede the landmark edge that references it."""
    for pos, k in enumerate(order):
        ln = base[k]
        if ln[0] == "EDGE_SE3_TRACKXYZ":
            pid = ln[3]
            ok = any(base[j][0] == "PARAMS_SE3OFFSET" and base[j][1] == pid for j in order[:pos])
            if not ok:
                return False
    return True


def render(lines, sep=" ", trail="", eol="\n", final_eol=True):
    txt = eol.join((sep.join(l) if isinstance(l, list) else l) + (trail if isinstance(l, list) else "") for l in lines)
    return txt + (eol if final_eol else "")


def chunks(tier, seed):
    out = []
    for b in ("b1", "b2"):
        for first in range(7):
            out.append(("perm", b, first))
        out.append(("junk1", b, 0))
        for pos in range(8):
            out.append(("junk2", b, pos))
        out.append(("fmt", b, 0))
        out.append(("sep", b, 0))
    out.append(("empty", "b1", 0))
    out.append(("custom2", "b1", 0))
    for first in range(7):
        out.append(("custom3", "b2", first))
    out.append(("long", "b1", 0))
    for k, tag in enumerate(SPARSE_TAGS):
        out.append(("sparse", "b1" if tag.startswith("EDGE_SE2") else "b2", k))
    out.append(("bigid", "b1", 0))
    out.append(("bigid", "b2", 0))
    return out


def run_chunk(chunk, tier, seed):
    typ, b, k = chunk
    acc = Acc(ID, signature)
    base = base_files()[b]
    tmp = tempfile.mkdtemp(prefix="vf-c14-")
    try:
        ctx = {"tmp": tmp}
        if typ == "perm":
            rest = [i for i in range(7) if i != k]
            for p in itertools.permutations(rest):
                order = [k] + list(p)
                if not legal(order, base):
                    acc.exclude("offset parameter after the edge that uses it")
                    continue
                _do(acc, {"t": "perm", "base": b, "order": order}, ctx)
        elif typ == "junk1":
            _do(acc, {"t": "junk", "base": b, "ins": []}, ctx)
            for pos in range(8):
                for j in range(len(JUNK)):
                    _do(acc, {"t": "junk", "base": b, "ins": [[pos, j]]}, ctx)
        elif typ == "junk2":
            for j in range(len(JUNK)):
                for pos2 in range(8):
                    for j2 in range(len(JUNK)):
                        _do(acc, {"t": "junk", "base": b, "ins": [[k, j], [pos2, j2]]}, ctx)
                        if tier == "thorough":
                            for rot in range(1, 7):
                                _do(acc, {"t": "junk", "base": b, "ins": [[k, j], [pos2, j2]], "rot": rot}, ctx)
        elif typ == "fmt":
            for li, ln in enumerate(base):
                first_num = {"VERTEX": 2, "PARAMS": 2, "CUSTOM": 2}.get(ln[0].split("_")[0], 3)
                if ln[0] == "EDGE_SE3_TRACKXYZ":
                    first_num = 4
                for fi in range(first_num, len(ln)):
                    for f in FORMATS:
                        _do(acc, {"t": "fmt", "base": b, "line": li, "field": fi, "fmt": f}, ctx)
                # ids with an explicit sign / leading zeros
                for fi in range(1, first_num):
                    if ln[0] == "EDGE_SE3_TRACKXYZ" and fi == 3:
                        continue
        elif typ == "sep":
            for sep in (" ", "   ", "  "):
                for trail in ("", "  "):
                    for eol, fin in (("\n", True), ("\r\n", True), ("\n", False)):
                        for loader in range(6):
                            _do(acc, {"t": "sep", "base": b, "sep": sep, "trail": trail, "eol": eol, "final": fin, "loader": loader}, ctx)
                            if sep == " " and trail == "":
                                _do(acc, {"t": "sep", "base": b, "sep": sep, "trail": trail, "eol": eol, "final": fin, "loader": loader, "unregistered_custom": True}, ctx)
        elif typ == "bigid":
            # ids are integers, not doubles: values beyond 2^53 must survive (each id of the file replaced consistently)
            ids = sorted({ln[k] for ln in base for k in range(1, 4) if ln[0].startswith(("VERTEX", "EDGE")) and k < len(ln) and (ln[0].startswith("VERTEX") and k == 1 or ln[0].startswith("EDGE") and k <= 2)})
            for old_id in ids:
                for new_id in BIG_IDS:
                    _do(acc, {"t": "bigid", "base": b, "old": old_id, "new": new_id}, ctx)
        elif typ == "custom2":
            # several registered custom types: every line order x both registration orders x registering only one of them
            for order in itertools.permutations(range(len(CUSTOM_LINES))):
                for reg in ("AB", "BA"):
                    _do(acc, {"t": "custom2", "base": b, "order": list(order), "reg": reg}, ctx)
        elif typ == "long":
            # files of 10^4+ lines: every line still produces its object (line counters, progress logging, chunked reading)
            for nlines in (9999, 10000, 10001, 20003):
                _do(acc, {"t": "long", "base": b, "n": nlines}, ctx)
        elif typ == "sparse":
            # information with zeros: every zero / non-zero pattern of the upper triangle (2x2, 3x3); for 6x6 every pattern with <= 2 non-zeros
            tag = SPARSE_TAGS[k]
            n = {"EDGE_SE2": 3, "EDGE_SE2_XY": 2, "EDGE_SE3_TRACKXYZ": 3, "EDGE_SE3:QUAT": 6}[tag]
            m = n * (n + 1) // 2
            if n <= 3:
                pats = list(itertools.product((0, 1), repeat=m))
            else:
                pats = [tuple(1 if i in c else 0 for i in range(m)) for r in (0, 1, 2) for c in itertools.combinations(range(m), r)]
            for pat in pats:
                _do(acc, {"t": "sparse", "base": b, "tag": tag, "pat": list(pat)}, ctx)
        elif typ == "custom3":
            # a registered custom type that needs the file's offset parameters: every legal order of a 7-line file
            c3 = custom3_lines()
            rest = [i for i in range(7) if i != k]
            for p in itertools.permutations(rest):
                order = [k] + list(p)
                if not legal3([c3[i] for i in order]):
                    acc.exclude("offset parameter after the edge that uses it")
                    continue
                _do(acc, {"t": "custom3", "base": b, "order": order}, ctx)
        elif typ == "empty":
            for j in range(len(JUNK)):
                for j2 in range(len(JUNK)):
                    _do(acc, {"t": "empty", "base": b, "ins": [j, j2]}, ctx)
    finally:
        shutil.rmtree(tmp, ignore_errors=True)
    return acc


def _do(acc, case, ctx):
    acc.evals += 1
    acc.states += 1
    acc.traces += 1
    msgs, info = _eval(case, ctx)
    acc.transitions += info.get("loads", 1)
    for c in info.get("classes", ()):
        acc.cls(c)
    acc.outcome("objects=%s warnings=%s" % (info.get("nobj"), info.get("nwarn")))
    if info.get("nontrivial", True):
        acc.nontrivial += 1
    if msgs:
        acc.violation(case, msgs)
    acc.sample(case, 1)


def eval_case(case):
    tmp = tempfile.mkdtemp(prefix="vf-c14-")
    try:
        return _eval(case, {"tmp": tmp})[0]
    finally:
        shutil.rmtree(tmp, ignore_errors=True)


def signature(case, msgs):
    return {"t": case.get("t"), "base": case.get("base")}


def text_of(case):
    base = [list(l) for l in base_files()[case["base"]]]
    t = case["t"]
    classes = [t if t not in ("junk",) else ("junk%d" % len(case["ins"]) if case["ins"] else "junk0")]
    kw = {}
    lines = base
    if t == "perm":
        lines = [base[k] for k in case["order"]]
    elif t == "junk":
        rot = case.get("rot", 0)
        if rot:
            cand = base[rot:] + base[:rot]
            lines = cand if legal(list(range(7)), cand) else base
        lines = list(lines)
        # insert from the highest position down so that positions refer to the base file
        first_edge = [l for l in lines if isinstance(l, list) and l[0].startswith("EDGE")][0]
        for pos, j in sorted(case["ins"], key=lambda x: -x[0]):
            if JUNK[j][0] == "dup_line":
                lines.insert(pos, list(first_edge))
                classes.append("duplicate_line")
                continue
            lines.insert(pos, JUNK[j][1])
            if JUNK[j][0] == "near_miss":
                classes.append("near_miss_tag")
            if JUNK[j][0] == "embedded":
                classes.append("embedded_tag")
    elif t == "fmt":
        lines[case["line"]][case["field"]] = case["fmt"]
    elif t == "sep":
        lines = [l for l in base if l[0] != "CUSTOM_PRIOR"]
        lines.insert(2, "# a comment line (every entry point warns about it)")
        if case.get("unregistered_custom"):
            # a line of a custom tag while NO custom type is registered for this call: an unrecognised line like any other
            lines.insert(4, ["CUSTOM_PRIOR", "0", "0.5", "-0.5", "1.0", "0.5", "2.0"])
            classes.append("custom_tag_without_registration")
        kw = {"sep": case["sep"], "trail": case["trail"], "eol": case["eol"], "final_eol": case["final"]}
        classes.append("loader")
        if case["eol"] == "\r\n":
            classes.append("crlf")
    elif t == "empty":
        lines = [JUNK[j][1] or "" for j in case["ins"]]
    elif t == "bigid":
        for ln in lines:
            if ln[0].startswith("VERTEX") or ln[0] == "CUSTOM_PRIOR":
                if ln[1] == case["old"]:
                    ln[1] = case["new"]
            elif ln[0].startswith("EDGE"):
                for k in (1, 2):
                    if ln[k] == case["old"]:
                        ln[k] = case["new"]
        classes.append("huge_ids")
    elif t == "custom2":
        lines = [list(CUSTOM_LINES[k]) for k in case["order"]]
        classes.append("two_custom_types")
    elif t == "long":
        nv = 40
        lines = [["VERTEX_SE2", str(i), repr(0.5 * i), repr(-0.25 * i), repr(0.01 * i)] for i in range(nv)]
        k = 0
        while len(lines) < case["n"]:
            a, b_ = k % nv, (7 * k + 1) % nv
            if a == b_:
                b_ = (b_ + 1) % nv
            lines.append(["EDGE_SE2", str(a), str(b_), repr(0.001 * k), "0.5", "-0.25", "1", "0", "0", "2", "0", repr(3.0 + k)])
            k += 1
        classes.append("ten_thousand_lines")
    elif t == "sparse":
        for ln in lines:
            if ln[0] == case["tag"]:
                m = len(case["pat"])
                vals = [("%g" % (1.5 + 0.25 * i)) if on else "0" for i, on in enumerate(case["pat"])]
                ln[len(ln) - m :] = vals
        classes.append("information_with_zeros")
    elif t == "custom3":
        c3 = custom3_lines()
        lines = [list(c3[k]) for k in case["order"]]
        classes.append("custom_type_with_parameters")
    return render(lines, **kw), classes


LOADERS = ["Graph.from_g2o", "load_g2o", "load_g2o_r2", "load_g2o_r3", "load_g2o_se2", "load_g2o_se3"]


def _load(path, loader, custom):
    import graphslam.load as L

    if loader == 0:
        return I.Graph.from_g2o(path, custom_edge_types=custom) if custom else I.Graph.from_g2o(path)
    return getattr(L, LOADERS[loader])(path)


class _Cap(logging.Handler):
    def __init__(self):
        super().__init__(level=logging.WARNING)
        self.records = []

    def emit(self, record):
        self.records.append(record.getMessage())


def _scribble(g):
    try:
        for v in I.graph_vertices(g):
            np.asarray(v.pose)[...] = 12345.678
        for e in I.graph_edges(g):
            if isinstance(e.estimate, np.ndarray):
                np.asarray(e.estimate)[...] = -9876.5
            if getattr(e, "offset", None) is not None:
                np.asarray(e.offset)[...] = 777.25
            np.asarray(e.information)[...] = -1.0
        for prm in (I.graph_params(g) or {}).values():
            np.asarray(prm.value)[...] = 555.5
    except Exception:
        pass


def _prelude(ctx):
    """history carried by every case: a file with every tag is loaded first and every array of that graph is overwritten in
    place, so anything a later load shares with an earlier one (module-level default objects, cached parameters) shows up."""
    bf = base_files()
    path = os.path.join(ctx["tmp"], "prelude.g2o")
    lines = [list(l) for l in bf["b1"] if l[0] != "CUSTOM_PRIOR"]
    remap = {"10": "110", "-4": "96", "7": "107"}
    for l in bf["b2"]:
        l = list(l)
        if l[0].startswith("VERTEX"):
            l[1] = remap[l[1]]
        elif l[0].startswith("EDGE"):
            l[1], l[2] = remap[l[1]], remap[l[2]]
        lines.append(l)
    # ... and every junk line of the alphabet has been seen (and warned about) before
    lines = lines + [j[1] for j in JUNK if j[1]]
    with open(path, "w", newline="") as f:
        f.write(render(lines))
    lg = logging.getLogger("graphslam.graph")
    old = lg.level
    lg.setLevel(logging.CRITICAL)
    try:
        g = I.Graph.from_g2o(path)
        assert len(I.graph_vertices(g)) == 6 and len(I.graph_edges(g)) == 4
        _scribble(g)
        # ... and an earlier import in this process registered custom edge types for ITS call
        p2 = os.path.join(ctx["tmp"], "prelude_custom.g2o")
        with open(p2, "w", newline="") as f:
            f.write(render([list(l) for l in CUSTOM_LINES]))
        I.Graph.from_g2o(p2, custom_edge_types=[CustomPrior, CustomPair])
    finally:
        lg.setLevel(old)


def _eval(case, ctx):
    try:
        return _eval_unguarded(case, ctx)
    except Exception as ex:
        import traceback

        return ["unexpected %s while evaluating the case: %s | %s" % (type(ex).__name__, ex, traceback.format_exc()[-400:])], {"classes": [], "nobj": "exception", "nwarn": "-"}


def _eval_unguarded(case, ctx):
    msgs = []
    _prelude(ctx)
    text, classes = text_of(case)
    has_custom = ("CUSTOM_PRIOR" in text or "CUSTOM_LM3" in text) and not case.get("unregistered_custom")
    if has_custom:
        classes.append("custom_tag")
    if "EDGE_SE3_TRACKXYZ" in text:
        classes.append("param_resolved")
    ref = RG.parse(text, {} if case.get("unregistered_custom") else CUSTOM)
    path = os.path.join(ctx["tmp"], "f.g2o")
    with open(path, "w", newline="") as f:
        f.write(text)
    lg = logging.getLogger("graphslam.graph")
    ll = logging.getLogger("graphslam.load")
    if not ll.handlers:
        ll.addHandler(logging.NullHandler())
        ll.propagate = False
    cap = _Cap()
    lg.addHandler(cap)
    old_prop = lg.propagate
    lg.propagate = False
    loader = case.get("loader", 0)
    try:
        try:
            ctypes = None
            if has_custom:
                ctypes = [CustomPrior, CustomPair] if case.get("reg", "AB") == "AB" else [CustomPair, CustomPrior]
                if case["t"] == "custom3":
                    ctypes = [CustomPrior, CustomLm3]
            g = _load(path, loader, ctypes)
        except Exception as ex:
            return ["loading a well-formed file raised %s: %s\n%s" % (type(ex).__name__, ex, text)], {"classes": classes, "nobj": "raise", "nwarn": "-"}
    finally:
        lg.removeHandler(cap)
        lg.propagate = old_prop
    got = g2oio.describe_graph(g)
    g2oio.compare(got, ref, msgs, custom_map={"CUSTOM_PRIOR": "CustomPrior", "CUSTOM_PAIR": "CustomPair", "CUSTOM_LM3": "CustomLm3"})
    if case["t"] == "custom3" and not msgs:
        # each custom landmark edge received the offset of the parameter id on ITS line
        for e in I.graph_edges(g):
            if type(e).__name__ == "CustomLm3":
                pid = int(e.estimate[0])
                want = ref["params"][("PARAMS_SE3OFFSET", pid)]
                gotoff = None if e.offset is None else I.comps(e.offset)
                if gotoff is None or max(abs(a - b) for a, b in zip(gotoff, want)) > 1e-15:
                    msgs.append("custom edge referring to offset parameter %d received offset %r, the file says %r" % (pid, gotoff, want))
    nw = len(cap.records)
    lo, hi = len(ref["unsupported"]), len(ref["unsupported"]) + ref["blank"]
    if not lo <= nw <= hi:
        msgs.append("%d warning(s) logged for %d unsupported non-blank and %d blank line(s)" % (nw, lo, ref["blank"]))
    loads = 1
    if case["t"] == "sep":
        # all loader entry points agree with Graph.from_g2o bitwise
        lvl = lg.level
        lg.setLevel(logging.CRITICAL)
        try:
            g0 = g2oio.describe_graph(_load(path, 0, None))
        finally:
            lg.setLevel(lvl)
        loads += 1
        if _bits(g0) != _bits(got):
            msgs.append("%s returns a different graph than Graph.from_g2o for the same file" % LOADERS[loader])
    _scribble(g)
    if msgs:
        msgs.append("file was:\n" + text)
    return msgs, {"classes": classes, "nobj": len(got["vertices"]) + len(got["edges"]) + len(got["params"]), "nwarn": nw, "loads": loads}


def _bits(desc):
    out = []
    for v in desc["vertices"]:
        out.append((v["id"], v["kind"], np.array(v["pose"]).tobytes()))
    for e in desc["edges"]:
        out.append((e["type"], tuple(e["ids"]), np.array(e["est"]).tobytes(), np.array(e["om"]).tobytes(), np.array(e.get("off") or []).tobytes(), e.get("off_id")))
    for k, p in desc["params"].items():
        out.append((k, np.array(p).tobytes()))
    return out
