"""C02 - edge errors and chi^2 implement the documented measurement model (engine E1)."""
import itertools
import math
from fractions import Fraction

import numpy as np

from .. import alphabets as A
from .. import impl as I
from ..ref import edges as R
from ..ref import geom as G
from ..runner import Acc
from . import c01

ID = "C02"
TOL = 1e-9

META = {
    "rule": "(a) every single-edge configuration of the C01 alphabets x every information matrix of the Omega alphabet: error and chi2 vs the reference model; "
    "(b) every multiset of 1..3 (thorough 4) edges from a 14-edge mixed-type alphabet (incl. two landmarks seen from one pose through different offsets), and chains with 1..256 edges, x fixed-flag pattern {none, all, alternating}: Graph.calc_chi2 = sum of reference chi2 (fixed flags must not matter); (c) consistency: exactly-agreeing "
    "measurement gives chi2 ~ 0, any physically different alphabet measurement gives chi2 > 0 for SPD Omega; (d) linearity in Omega over Omega^2 x {0.5,2,1e3}^2; "
    "(e) exact rational tier on Hurwitz x dyadic members. non-trivial = error vector has a component with |e| > 1e-9 and the configuration has a non-identity rotation",
    "assumptions": [
        "alphabet members only",
        "reference vf/ref/edges.py, vf/ref/geom.py trusted; SE(3) rotational error accepted up to one global sign per evaluation; SE(2) angular error compared modulo 2 pi and required in [-pi, pi]",
    ],
    "required_classes": ["single:odo:SE2", "single:odo:SE3", "single:odo:R2", "single:odo:R3", "single:lm:SE2", "single:lm:SE3", "single:lm:R2", "single:lm:R3", "graph", "biggraph", "graph:fixed_vertices", "consistency", "linearity", "exact", "omega:spd", "omega:int", "omega:float32", "omega:indefinite", "subclass_measurement", "graph:nonpositive_information", "offset_rotated", "w_negative"],
    "bounds": {"quick": "C01 quick configuration sets x 3 information matrices; edge multisets of size <= 3", "thorough": "C01 thorough sets x 8 information matrices; multisets <= 4"},
}


def chunks(tier, seed):
    out = [("single",) + c for c in c01.chunks(tier, seed)]
    out.append(("graph", None, 0))
    out.append(("biggraph", None, 0))
    for kind in I.KINDS:
        out.append(("consistency", kind, 0))
        out.append(("linearity", kind, 0))
    for i in range(24):
        out.append(("exact", "SE3", i))
    return out


def _omegas(n, tier, seed):
    return A.OMEGA(n, tier, seed)


def run_chunk(chunk, tier, seed):
    acc = _run_chunk(chunk, tier, seed)
    sc_ = acc.extra.pop("_signconv", {})
    if "signconv:raw" in sc_ and "signconv:canonical" in sc_:
        # q ~ -q leaves the sign of the SE(3) rotational error open, but ONE convention must be used throughout
        case = {"t": "signmix", "a": sc_["signconv:raw"], "b": sc_["signconv:canonical"]}
        m = eval_case(case)
        if m:
            acc.violation(case, m)
    return acc


def _run_chunk(chunk, tier, seed):
    typ = chunk[0]
    acc = Acc(ID, signature)
    if typ == "single":
        _, et, kind, i = chunk
        if et == "odo":
            ps = c01._P(kind, tier, seed)
            p1 = ps[i]
            for p2 in ps:
                for z in ps:
                    _do(acc, {"t": "single", "edge": "odo", "kind": kind, "p1": p1, "p2": p2, "z": z, "tier": tier, "seed": seed})
            # residuals of thousands of units
            d = G.DIM[kind]
            far = [2500.0, -1800.0, 900.0][:d]
            for q in ps[: min(len(ps), 4)]:
                _do(acc, {"t": "single", "edge": "odo", "kind": kind, "p1": p1, "p2": far + list(q[d:]), "z": q, "tier": tier, "seed": seed})
                _do(acc, {"t": "single", "edge": "odo", "kind": kind, "p1": p1, "p2": q, "z": [-x for x in far] + list(q[d:]), "tier": tier, "seed": seed})
        else:
            p1 = A.poses(kind, tier, seed)[i]
            pk = I.POINT_OF[kind]
            pts = A.poses(pk, tier, seed)
            zs = [[0.0] * len(pts[0]), A.jit(seed, "lmz", [0.4, -0.6, 0.9])[: len(pts[0])]]
            for off in c01._offs(kind, tier, seed):
                for l in pts:
                    for z in zs:
                        _do(acc, {"t": "single", "edge": "lm", "kind": kind, "p1": p1, "off": off, "l": l, "z": z, "tier": tier, "seed": seed})
    elif typ == "graph":
        m = 3 if tier == "quick" else 4
        for k in range(1, m + 1):
            for ms in itertools.combinations_with_replacement(range(14), k):
                for fx in ("none", "all", "alt"):
                    _do(acc, {"t": "graph", "edges": list(ms), "seed": seed, "fixed": fx})
                # symmetric but not positive information on some / all edges: the graph's chi2 is still the plain sum
                for osign in ("negalt", "neg"):
                    _do(acc, {"t": "graph", "edges": list(ms), "seed": seed, "fixed": "none", "osign": osign})
    elif typ == "biggraph":
        # the sum over the edges for edge counts around powers of two (blocked / chunked summation shows only there)
        for ne in (1, 2, 31, 32, 33, 63, 64, 65, 127, 128, 129, 200, 256):
            for kind in ("R2", "SE2"):
                _do(acc, {"t": "biggraph", "kind": kind, "ne": ne, "seed": seed})
    elif typ == "consistency":
        kind = chunk[1]
        ps = A.poses(kind, tier, seed)
        if tier == "thorough" and len(ps) > 80:
            step = len(ps) / 80.0
            ps = [ps[int(i * step)] for i in range(80)]
        for p1 in ps:
            for p2 in ps:
                _do(acc, {"t": "consistency", "kind": kind, "p1": p1, "p2": p2, "tier": tier, "seed": seed})
    elif typ == "linearity":
        kind = chunk[1]
        ps = A.poses(kind, "quick", seed)
        sel = ps[:: max(1, len(ps) // 6)]
        for p1 in sel:
            for p2 in sel:
                _do(acc, {"t": "linearity", "kind": kind, "p1": p1, "p2": p2, "z": sel[1], "tier": tier, "seed": seed})
    elif typ == "exact":
        hs = A.hurwitz24()
        qa = hs[chunk[2]]
        dy = [[0.0, 0.0, 0.0], [0.5, -1.25, 2.0], [-3.0, 0.75, -0.5]]
        for ta in dy:
            for qb in hs[::3]:
                for tb in dy:
                    for qz in hs[1::4]:
                        _do(acc, {"t": "exact", "kind": "SE3", "p1": ta + qa, "p2": tb + qb, "z": dy[1] + qz})
    return acc


def _do(acc, case):
    acc.evals += 1
    acc.states += 1
    acc.traces += 1
    t = case["t"]
    if t == "single":
        acc.cls("single:%s:%s" % (case["edge"], case["kind"]))
        kind = case["kind"]
        if case["edge"] == "lm" and kind in ("SE2", "SE3"):
            off = case["off"]
            if (kind == "SE2" and off[2] != 0.0) or (kind == "SE3" and abs(off[6]) != 1.0):
                acc.cls("offset_rotated")
        if kind == "SE3" and any(c[6] < 0 for c in (case.get("p1"), case.get("p2"), case.get("z"), case.get("off")) if c is not None and len(c) == 7):
            acc.cls("w_negative")
    else:
        acc.cls(t)
    msgs, ratio, nontriv, nops, classes = _eval(case)
    for c in classes:
        acc.cls(c)
        if c in ("signconv:raw", "signconv:canonical"):
            first = acc.extra.setdefault("_signconv", {})
            first.setdefault(c, case)
    acc.transitions += nops
    if nontriv:
        acc.nontrivial += 1
    acc.ratio(ratio, case if ratio > 1e-2 else None)
    if msgs:
        acc.violation(case, msgs)
    acc.sample(case, 1)


def eval_case(case):
    return _eval(case)[0]


def signature(case, msgs):
    return {"t": case.get("t"), "edge": case.get("edge"), "kind": case.get("kind")}


def _py_chi2(e, om):
    return R.chi2([float(x) for x in e], om)


def _cmp_error(kind, edge_t, got, ref, sc, msgs):
    """returns (ratio, list of admissible reference error vectors)."""
    got = [float(x) for x in np.asarray(got, dtype=float).ravel()]
    if len(got) != len(ref):
        msgs.append("error vector has length %d, expected %d" % (len(got), len(ref)))
        return float("inf"), [ref]
    if not all(math.isfinite(x) for x in got):
        msgs.append("error vector not finite: %r" % got)
        return float("inf"), [ref]
    cands = [list(ref)]
    if kind == "SE3" and edge_t == "odo":
        cands.append(R.flip_rot(ref))
    if kind == "SE2" and edge_t == "odo":
        if not (-math.pi - 1e-12 <= got[2] <= math.pi + 1e-12):
            msgs.append("SE(2) angular error %.17g outside [-pi, pi]" % got[2])
        if abs(abs(ref[2]) - math.pi) < 1e-6:
            cands.append([ref[0], ref[1], -ref[2]])
    best = float("inf")
    for c in cands:
        d = max(abs(a - b) for a, b in zip(got, c))
        best = min(best, d)
    r = best / (TOL * sc)
    if r > 1.0:
        msgs.append("error %r differs from the reference model %r by %.3g (> %.3g)" % (got, [float(x) for x in ref], best, TOL * sc))
    return r, cands


def _scale(case):
    kind = case["kind"]
    sc = 1.0
    for key in ("p1", "p2", "z", "off", "l"):
        c = case.get(key)
        if c is not None:
            d = len(c) if (case.get("edge") == "lm" and key in ("l", "z")) else G.DIM[kind]
            sc += sum(abs(x) for x in c[:d])
    return sc


def _stored(kind, c):
    return I.comps(I.mk_pose(kind, c))


def _eval(case):
    try:
        return _eval_inner(case)
    except Exception as ex:
        import traceback

        return ["raised %s: %s %s" % (type(ex).__name__, ex, traceback.format_exc()[-300:])], float("inf"), False, 1, []


def _ref_error(case):
    kind = case["kind"]
    if case["edge"] == "odo":
        return R.odometry_error(kind, _stored(kind, case["p1"]), _stored(kind, case["p2"]), _stored(kind, case["z"]))
    return R.landmark_error(kind, _stored(kind, case["p1"]), _stored(kind, case["off"]), case["l"], case["z"])


def _eval_inner(case):
    t = case["t"]
    msgs = []
    classes = []
    if t == "signmix":
        ca = _eval_inner(case["a"])[4]
        cb = _eval_inner(case["b"])[4]
        if "signconv:raw" in ca and "signconv:canonical" in cb:
            msgs.append("the SE(3) odometry error uses the raw sign of the error quaternion for %r but the w >= 0 representative for %r: no single convention for q ~ -q (the error function jumps where neither the measurement nor the estimate does)" % ({k: case["a"][k] for k in ("p1", "p2", "z")}, {k: case["b"][k] for k in ("p1", "p2", "z")}))
        return msgs, 0.0, True, 2, []
    if t == "single":
        kind = case["kind"]
        e, n = c01.build_edge(case)
        sc = _scale(case)
        got = e.calc_error()
        ref = _ref_error(case)
        ratio, cands = _cmp_error(kind, case["edge"], got, ref, sc, msgs)
        nops = 1
        if kind == "SE3" and case["edge"] == "odo" and not msgs:
            # which representative of the error quaternion (q ~ -q) did the implementation pick?
            w = R.odometry_error_w(_stored(kind, case["p1"]), _stored(kind, case["p2"]), _stored(kind, case["z"]))
            g6 = [float(x) for x in np.asarray(got).ravel()]
            rv = max(abs(x) for x in ref[3:])
            if abs(w) > 1e-6 and rv > 1e-6:
                canon = ref if w > 0 else R.flip_rot(ref)
                m_raw = max(abs(a - b) for a, b in zip(g6, ref)) <= TOL * sc
                m_can = max(abs(a - b) for a, b in zip(g6, canon)) <= TOL * sc
                classes.append("signconv:" + ("both" if (m_raw and m_can) else "raw" if m_raw else "canonical" if m_can else "neither"))
        nontriv = any(abs(x) > 1e-9 for x in ref)
        gotl = [float(x) for x in np.asarray(got).ravel()]
        for name, om in _omegas(n, case["tier"], case["seed"]):
            classes.append("omega:" + name)
            e.information = np.array(om, dtype=float)
            c2 = float(e.calc_chi2())
            nops += 1
            onorm = max(abs(x) for row in om for x in row) * n * n
            en2 = sum(x * x for x in ref)
            tolc = 4 * TOL * (onorm * (sc * math.sqrt(en2) + sc * sc * TOL)) + 1e-300
            refs = [R.chi2(c, om) for c in cands]
            d = min(abs(c2 - r) for r in refs)
            ratio = max(ratio, d / tolc if tolc > 0 else 0.0)
            if not d <= tolc:
                msgs.append("chi2 with Omega=%s: impl %.17g vs reference %r (|diff| %.3g > %.3g)" % (name, c2, refs, d, tolc))
            own = _py_chi2(gotl, om)
            tol2 = 1e-12 * onorm * max(en2, sum(x * x for x in gotl)) + 1e-300
            if not abs(c2 - own) <= tol2:
                msgs.append("chi2 with Omega=%s is %.17g but e^T Omega e of the edge's own error is %.17g" % (name, c2, own))
            if name != "ill" and c2 < -1e-12 * onorm * en2:
                msgs.append("chi2 %.3g negative for PSD information %s" % (c2, name))
            # the measurement model does not know about fixed flags: same error / chi2 whatever is marked fixed
            for flags in ((True, True), (True, False), (False, True)):
                for v, f in zip(e.vertices, flags):
                    v.fixed = f
                c2f = float(e.calc_chi2())
                nops += 1
                if not (c2f == c2 or abs(c2f - c2) <= 1e-15 * abs(c2)):
                    msgs.append("chi2 with Omega=%s changes from %.17g to %.17g when the vertices are marked fixed=%r" % (name, c2, c2f, flags))
            for v in e.vertices:
                v.fixed = False
        # information matrices of another dtype / definiteness: integer-typed, single precision (values exactly representable),
        # symmetric indefinite and negative definite ("any symmetric information matrix": chi2 is still e^T Omega e)
        if not msgs:
            ispd = [[float(2 + i if i == j else (1 if abs(i - j) == 1 else 0)) for j in range(n)] for i in range(n)]
            indef = [[(-1.0) ** i * (i + 1.0) if i == j else 0.5 for j in range(n)] for i in range(n)]
            for name, om, dt in (("int", ispd, int), ("float32", ispd, np.float32), ("indefinite", indef, float), ("negdef", [[-x for x in r_] for r_ in ispd], float), ("all-zero", [[0.0] * n for _ in range(n)], float)):
                classes.append("omega:" + name)
                e.information = np.array(om, dtype=dt)
                c2 = float(e.calc_chi2())
                nops += 1
                onorm = max(abs(x) for row in om for x in row) * n * n
                en2 = sum(x * x for x in ref)
                tolc = 4 * TOL * (onorm * (sc * math.sqrt(en2) + sc * sc * TOL)) + 1e-300
                refs = [R.chi2(c, om) for c in cands]
                d = min(abs(c2 - r) for r in refs)
                ratio = max(ratio, d / tolc)
                if not d <= tolc:
                    msgs.append("chi2 with a %s information matrix: impl %.17g vs reference %r (|diff| %.3g > %.3g)" % (name, c2, refs, d, tolc))
        # the measurement (and the offset) may be instances of a user subclass of the pose class (e.g. a pose carrying a time stamp)
        if not msgs:
            kind_m = kind if case["edge"] == "odo" else I.POINT_OF[kind]
            sub_m = type("Stamped" + I.CLS[kind_m].__name__, (I.CLS[kind_m],), {})
            keep_est, keep_off = e.estimate, getattr(e, "offset", None)
            e.estimate = np.asarray(keep_est).view(sub_m)
            if case["edge"] == "lm":
                sub_o = type("Stamped" + I.CLS[kind].__name__, (I.CLS[kind],), {})
                e.offset = np.asarray(keep_off).view(sub_o)
            ok_valid = True
            try:
                ok_valid = bool(e.is_valid())
            except Exception:
                ok_valid = False
            if ok_valid:
                classes.append("subclass_measurement")
                gs = [float(x) for x in np.asarray(e.calc_error(), dtype=float).ravel()]
                nops += 1
                if max(abs(a - b) for a, b in zip(gs, gotl)) > 1e-15 * sc:
                    msgs.append("error changes from %r to %r when the measurement / offset are instances of a subclass of the pose class" % (gotl, gs))
            e.estimate = keep_est
            if case["edge"] == "lm":
                e.offset = keep_off
        # history on the SAME edge object: the measurement (and the offset) are replaced, chi2 must follow
        if not msgs:
            kind_m = kind if case["edge"] == "odo" else I.POINT_OF[kind]
            alt = dict(case)
            zs = [float(x) for x in I.comps(e.estimate)]
            alt["z"] = [x + 0.25 for x in zs[: G.DIM[kind_m]]] + zs[G.DIM[kind_m] :]
            e.estimate = I.mk_pose(kind_m, alt["z"])
            if case["edge"] == "lm":
                alt["off"] = case["p1"]
                e.offset = I.mk_pose(kind, alt["off"])
            name, om = _omegas(n, case["tier"], case["seed"])[-1] if False else _omegas(n, "quick", case["seed"])[2]
            e.information = np.array(om, dtype=float)
            ref2 = _ref_error(alt)
            got2 = e.calc_error()
            r2, cands2 = _cmp_error(kind, case["edge"], got2, ref2, sc + 0.25, msgs)
            ratio = max(ratio, r2)
            c2 = float(e.calc_chi2())
            nops += 2
            refs = [R.chi2(c, om) for c in cands2]
            onorm = max(abs(x) for row in om for x in row) * n * n
            en2 = sum(x * x for x in ref2)
            tolc = 4 * TOL * (onorm * ((sc + 0.25) * math.sqrt(en2) + (sc + 0.25) ** 2 * TOL)) + 1e-300
            if not min(abs(c2 - r) for r in refs) <= tolc:
                msgs.append("after replacing the measurement%s on the same edge object, chi2 is %.17g but the reference gives %r (stale intermediate result?)" % (" and the offset" if case["edge"] == "lm" else "", c2, refs))
        return msgs, ratio, nontriv, nops, classes
    if t == "biggraph":
        kind, ne = case["kind"], case["ne"]
        c = I.COMPACT[kind]
        nv = 7
        V = [[math.sin(0.9 * i + a) * 2.0 + 0.2 * i for a in range(G.DIM[kind])] + ([0.4 * i - 1.0] if kind == "SE2" else []) for i in range(nv)]
        verts = [I.Vertex(i, I.mk_pose(kind, V[i])) for i in range(nv)]
        edges = []
        tot = 0.0
        for k in range(ne):
            a, b = k % nv, (3 * k + 1) % nv
            if a == b:
                b = (b + 1) % nv
            z = [0.3 * math.cos(0.7 * k + q) for q in range(c)]
            om = A.spd(c, case["seed"], "bg%d" % (k % 11))
            edges.append(I.EdgeOdometry([a, b], np.array(om, dtype=float), I.mk_pose(kind, z)))
            tot += R.chi2(R.odometry_error(kind, I.comps(verts[a].pose), I.comps(verts[b].pose), I.comps(I.mk_pose(kind, z))), om)
        g = I.Graph(edges, verts)
        got = float(g.calc_chi2())
        r = abs(got - tot) / (1e-9 * (1.0 + abs(tot)))
        if r > 1.0:
            msgs.append("graph with %d edges: calc_chi2 = %.17g but the sum of the reference edge chi2 is %.17g" % (ne, got, tot))
        return msgs, r, True, 1 + ne, ["biggraph"]
    if t == "graph":
        g, edges, specs = _graph_alphabet(case["seed"], case["edges"])
        if case.get("osign"):
            for k, (ed, (et, kind, d)) in enumerate(zip(edges, specs)):
                if case["osign"] == "neg" or k % 2 == 0:
                    d["om"] = [[-x for x in r_] for r_ in d["om"]]
                    ed.information = -np.asarray(ed.information)
        fx = case.get("fixed", "none")
        for k, v in enumerate(I.graph_vertices(g)):
            v.fixed = (fx == "all") or (fx == "alt" and k % 2 == 0)
        mag = 0.0
        sums = [0.0]
        for (et, kind, d) in specs:
            cc = dict(d)
            cc.update({"edge": et, "kind": kind})
            ref = _ref_error(cc)
            om = d["om"]
            cs = [R.chi2(ref, om)]
            if et == "odo" and kind == "SE3":
                cs.append(R.chi2(R.flip_rot(ref), om))  # q ~ -q: either representative of the rotational error
            mag += max(abs(c) for c in cs)
            sums = [s0 + c for s0 in sums for c in cs]
        got = float(g.calc_chi2())
        own = sum(float(e.calc_chi2()) for e in edges)
        tol = 1e-9 * (1.0 + mag)
        tot = min(sums, key=lambda s0: abs(s0 - got))
        r = abs(got - tot) / tol
        if r > 1.0:
            msgs.append("Graph.calc_chi2 = %.17g but the sum of the reference edge chi2 over the multiset %r is %.17g" % (got, case["edges"], tot))
        if abs(got - own) > 1e-12 * (1.0 + mag):
            msgs.append("Graph.calc_chi2 = %.17g differs from the sum of its edges' calc_chi2 %.17g" % (got, own))
        return msgs, r, len(case["edges"]) > 1, 1 + len(edges), (["graph:parallel"] if len(set(case["edges"])) < len(case["edges"]) else []) + (["graph:fixed_vertices"] if fx != "none" else []) + (["graph:nonpositive_information"] if case.get("osign") else [])
    if t == "consistency":
        kind = case["kind"]
        p1, p2 = _stored(kind, case["p1"]), _stored(kind, case["p2"])
        n = I.COMPACT[kind]
        sc = _scale(case)
        ratio = 0.0
        nops = 0
        oms = _omegas(n, "quick", case["seed"])
        zc = R.consistent_measurement(kind, p1, p2)
        v1, v2 = I.Vertex(1, I.mk_pose(kind, p1)), I.Vertex(2, I.mk_pose(kind, p2))
        for name, om in oms:
            e = I.EdgeOdometry([1, 2], np.array(om, dtype=float), I.mk_pose(kind, zc), [v1, v2])
            c2 = float(e.calc_chi2())
            nops += 1
            onorm = max(abs(x) for row in om for x in row) * n * n
            bound = onorm * (1e-11 * sc) ** 2
            ratio = max(ratio, abs(c2) / bound)
            if not abs(c2) <= bound:
                msgs.append("measurement that agrees exactly with the estimates gives chi2 = %.3g (> %.3g) with Omega=%s" % (c2, bound, name))
        # every other measurement of the alphabet that is a different physical transform must give chi2 > 0 (SPD Omega)
        for z in A.poses(kind, "quick", case["seed"]):
            zs = _stored(kind, z)
            if G.phys_diff(kind, zs, zc) < 1e-6 * sc:
                continue
            for name, om in oms:
                e = I.EdgeOdometry([1, 2], np.array(om, dtype=float), I.mk_pose(kind, zs), [v1, v2])
                c2 = float(e.calc_chi2())
                nops += 1
                if not c2 > 0.0:
                    msgs.append("measurement %r disagrees with the estimates but chi2 = %.3g with SPD Omega=%s" % (zs, c2, name))
        # landmark consistency (pose kinds with a point type)
        pk = I.POINT_OF[kind]
        off = p2
        for l in A.poses(pk, "quick", case["seed"]):
            zl = R.consistent_landmark(kind, p1, off, l)
            nl = I.COMPACT[pk]
            for name, om in _omegas(nl, "quick", case["seed"]):
                e = I.EdgeLandmark([1, 2], np.array(om, dtype=float), I.mk_pose(pk, zl), offset=I.mk_pose(kind, off), vertices=[v1, I.Vertex(2, I.mk_pose(pk, l))])
                c2 = float(e.calc_chi2())
                nops += 1
                onorm = max(abs(x) for row in om for x in row) * nl * nl
                scl = sc + sum(abs(x) for x in l)
                bound = onorm * (1e-11 * scl) ** 2
                ratio = max(ratio, abs(c2) / bound)
                if not abs(c2) <= bound:
                    msgs.append("landmark measurement that agrees exactly gives chi2 = %.3g (> %.3g)" % (c2, bound))
                e.estimate = I.mk_pose(pk, [x + 0.25 for x in zl])
                if not float(e.calc_chi2()) > 0.0:
                    msgs.append("landmark measurement off by 0.25 gives chi2 <= 0 with SPD Omega")
                # a tiny but well-resolved disagreement is still a disagreement: error ~ delta, chi2 ~ delta^2 Omega_kk
                if scl < 20.0 and name == "I":
                    for dlt in (1e-7, 1e-10):
                        zz = list(zl)
                        zz[0] = zz[0] - dlt
                        e.estimate = I.mk_pose(pk, zz)
                        big = 1e18
                        e.information = big * np.array(om, dtype=float)
                        err = np.asarray(e.calc_error(), dtype=float)
                        c2 = float(e.calc_chi2())
                        nops += 1
                        step = abs(zl[0] - (zl[0] - dlt))  # the representable disagreement
                        if step > 0 and not (abs(err[0] - step) <= 1e-3 * step + 4e-16 * scl):
                            msgs.append("landmark measurement off by %.3g: error component is %.3g (a small disagreement must not be flushed to zero)" % (dlt, err[0]))
                        if step > 1e-15 * scl * 1e3 and not c2 > 0.0:
                            msgs.append("landmark measurement off by %.3g with information 1e18: chi2 = %r" % (dlt, c2))
        return msgs, ratio, True, nops, []
    if t == "linearity":
        kind = case["kind"]
        n = I.COMPACT[kind]
        e, _ = c01.build_edge({"edge": "odo", "kind": kind, "p1": case["p1"], "p2": case["p2"], "z": case["z"]})
        oms = _omegas(n, case["tier"], case["seed"])
        ratio = 0.0
        nops = 0
        base = {}
        for name, om in oms:
            e.information = np.array(om, dtype=float)
            base[name] = float(e.calc_chi2())
        for (n1, o1), (n2, o2) in itertools.product(oms, oms):
            for a, b in itertools.product((0.5, 2.0, 1e3), repeat=2):
                e.information = a * np.array(o1, dtype=float) + b * np.array(o2, dtype=float)
                c2 = float(e.calc_chi2())
                nops += 1
                exp = a * base[n1] + b * base[n2]
                tol = 1e-10 * (abs(a * base[n1]) + abs(b * base[n2])) + 1e-300
                # ill-conditioned members cancel heavily; bound by magnitude of the terms instead
                en = float(np.linalg.norm(e.calc_error()))
                tol += 1e-12 * en * en * float(np.abs(e.information).sum())
                ratio = max(ratio, abs(c2 - exp) / tol)
                if not abs(c2 - exp) <= tol:
                    msgs.append("chi2(%g*%s + %g*%s) = %.17g but %g*chi2(%s) + %g*chi2(%s) = %.17g" % (a, n1, b, n2, c2, a, n1, b, n2, exp))
        return msgs, ratio, True, nops, []
    if t == "exact":
        kind = "SE3"
        e, _ = c01.build_edge({"edge": "odo", "kind": kind, "p1": case["p1"], "p2": case["p2"], "z": case["z"]})
        got = [float(x) for x in e.calc_error()]
        f = lambda c: [Fraction(x) for x in c]
        ref = [float(x) for x in R.odometry_error(kind, f(case["p1"]), f(case["p2"]), f(case["z"]))]
        ok = all(a == b for a, b in zip(got, ref)) or all(a == b for a, b in zip(got, R.flip_rot(ref)))
        d = min(max(abs(a - b) for a, b in zip(got, ref)), max(abs(a - b) for a, b in zip(got, R.flip_rot(ref))))
        if not ok and d > 1e-14:
            msgs.append("exact tier: error %r differs from the exact rational reference %r by %.3g" % (got, ref, d))
        return msgs, d / 1e-14, True, 1, []
    raise ValueError(t)


# ---------------------------------------------------------------------------- 12-edge alphabet on a mixed vertex set
def _graph_alphabet(seed, which):
    q1 = A.unit(A.jit(seed, "Q1", [0.1, -0.2, 0.3, 0.9]))
    q2 = A.unit([0.6, -0.3, 0.5, -0.2])
    V = {
        0: ("SE2", [0.3, -0.8, 2.9]),
        1: ("SE2", [-1.1, 0.4, -2.2]),
        2: ("R2", [2.0, 1.5]),
        3: ("SE3", [0.5, -0.4, 1.2] + q1),
        4: ("SE3", [-0.7, 0.9, 0.3] + q2),
        5: ("R3", [1.0, -2.0, 0.5]),
        6: ("R2", [-0.6, 0.2]),
        7: ("R3", [0.1, 0.2, -0.3]),
    }
    om = lambda n, tag: A.spd(n, seed, tag)
    E = [
        ("odo", "SE2", 0, 1, {"z": [0.9, -0.2, 1.3], "om": om(3, "a")}),
        ("odo", "SE2", 1, 0, {"z": [-0.5, 0.7, -3.0], "om": om(3, "b")}),
        ("lm", "SE2", 0, 2, {"off": [0.5, -0.25, 0.7], "z": [0.4, 1.1], "om": om(2, "c")}),
        ("lm", "SE2", 1, 2, {"off": [0.0, 0.0, 0.0], "z": [-0.3, 0.2], "om": om(2, "d")}),
        ("odo", "SE3", 3, 4, {"z": [0.2, 0.1, -0.4] + A.unit([0.2, 0.1, -0.3, 0.9]), "om": om(6, "e")}),
        ("odo", "SE3", 4, 3, {"z": [0.3, -0.6, 0.2] + A.unit([-0.4, 0.2, 0.1, -0.8]), "om": om(6, "f")}),
        ("lm", "SE3", 3, 5, {"off": [0.1, 0.2, -0.1] + A.unit([0.3, -0.1, 0.2, 0.9]), "z": [0.5, 0.5, -1.0], "om": om(3, "g")}),
        ("lm", "SE3", 4, 5, {"off": [0.0, 0.0, 0.0, 0.0, 0.0, 0.0, 1.0], "z": [-0.2, 0.3, 0.8], "om": om(3, "h")}),
        ("odo", "R2", 2, 6, {"z": [0.3, -0.1], "om": om(2, "i")}),
        ("lm", "R2", 6, 2, {"off": [0.2, 0.4], "z": [1.0, 1.0], "om": om(2, "j")}),
        ("odo", "R3", 5, 7, {"z": [0.1, 0.1, 0.1], "om": om(3, "k")}),
        ("lm", "R3", 7, 5, {"off": [-0.2, 0.1, 0.3], "z": [0.7, -0.7, 0.2], "om": om(3, "l")}),
        # a second landmark seen from the SAME pose through ANOTHER sensor offset (offset ids are export-only and left at None)
        ("lm", "SE2", 0, 6, {"off": [-0.3, 0.6, -1.1], "z": [0.2, -0.4], "om": om(2, "m")}),
        ("lm", "SE3", 3, 7, {"off": [0.4, -0.3, 0.2] + A.unit([-0.2, 0.4, 0.1, 0.8]), "z": [0.1, 0.6, -0.2], "om": om(3, "n")}),
    ]
    verts = {i: I.Vertex(i, I.mk_pose(k, c)) for i, (k, c) in V.items()}
    edges = []
    specs = []
    for idx in which:
        et, kind, a, b, d = E[idx]
        pk = I.POINT_OF[kind]
        if et == "odo":
            edges.append(I.EdgeOdometry([a, b], np.array(d["om"], dtype=float), I.mk_pose(kind, d["z"])))
            specs.append((et, kind, {"p1": V[a][1], "p2": V[b][1], "z": d["z"], "om": d["om"]}))
        else:
            edges.append(I.EdgeLandmark([a, b], np.array(d["om"], dtype=float), I.mk_pose(pk, d["z"]), offset=I.mk_pose(kind, d["off"])))
            specs.append((et, kind, {"p1": V[a][1], "off": d["off"], "l": V[b][1], "z": d["z"], "om": d["om"]}))
    # the edge objects arrive bound to OTHER vertex objects with the same ids (as after use in an earlier graph):
    # the graph's chi2 must be that of ITS vertices
    for ed in edges:
        ed.vertices = [I.Vertex(i, I.mk_pose(V[i][0], [x * (1.5 + 0.25 * i) + 1.0 + 0.37 * i for x in V[i][1][: G.DIM[V[i][0]]]] + V[i][1][G.DIM[V[i][0]] :])) for i in ed.vertex_ids]
    g = I.Graph(edges, list(verts.values()))
    return g, edges, specs
