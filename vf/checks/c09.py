"""C09 - pose composition is the rigid-motion group (engine E1: exhaustive over finite pose alphabets)."""
import itertools
import math
from fractions import Fraction

import numpy as np

from .. import alphabets as A
from .. import impl as I
from ..ref import geom as G
from ..runner import Acc

ID = "C09"
TITLE = "Pose composition is the rigid-motion group"
TOL = 1e-9

META = {
    "rule": "every element of the product of the pose alphabets (alphabets.py: translations x angles / unit quaternions incl. w<0, w=0, Hurwitz units, "
    "+-pi seam) is evaluated on the real pose classes and compared with the homogeneous-matrix / Hamilton-sandwich reference; "
    "a case is non-trivial when no operand is the identity and at least one rotation is not the identity",
    "assumptions": [
        "inputs are the members of the stated alphabets (no claim for other reals)",
        "reference model vf/ref/geom.py (matrix product, Hamilton sandwich) and CPython float/Fraction arithmetic are trusted",
        "comparison is physical (q ~ -q, theta ~ theta+2pi k) with tolerance 1e-9 x (1 + translation scale); exact on the Hurwitz x dyadic tier",
    ],
    "required_classes": ["pair", "point", "unary", "triple", "boxplus", "exact", "w_negative", "w_zero", "angle_seam"],
    "bounds": {
        "quick": "pairs: full quick alphabets (SE3 27 poses, SE2 36, Rn 3); triples: 12-pose sub-alphabet cubed; exact tier: 24 Hurwitz x 3 dyadic translations squared",
        "thorough": "pairs: full thorough alphabets (SE3 7x37 poses, SE2 7x25); triples: 64-pose sub-alphabet cubed",
    },
}

KINDS = ("R2", "R3", "SE2", "SE3")


def _alpha(kind, tier, seed):
    ps = A.poses(kind, tier, seed)
    # members that agree with other members in exactly ONE coordinate, and headings / rotations that are tiny but not zero
    g1 = A.T(3, "quick", seed)[1]
    g2 = A.T(3, "quick", seed)[2]
    if kind == "R2":
        ps = ps + [[g1[0], 0.0], [400.0, g2[1]]]
    elif kind == "R3":
        ps = ps + [[g1[0], 0.0, g2[2]], [0.0, g1[1], 5.0]]
    elif kind == "SE2":
        ps = ps + [[g1[0], 0.0, 0.3], [400.0, -250.0, 3e-7], [1.0, 2.0, -4e-7], [0.0, g2[1], 2.0]]
    else:
        tiny = A.unit([2e-7, -3e-7, 1e-7, 1.0])
        q = A.Q("quick", seed)
        ps = ps + [[g1[0], 0.0, g2[2]] + q[5], [0.0, g1[1], 5.0] + q[7], [400.0, -250.0, 10.0] + tiny, [0.0, 0.0, g1[2]] + q[6]]
    return ps


def _points(kind, tier, seed):
    n = 2 if kind in ("R2", "SE2") else 3
    return A.T(n, tier, seed)


def _thin(kind, tier, seed):
    ps = _alpha(kind, tier, seed)
    want = 12 if tier == "quick" else 64
    if len(ps) <= want:
        return ps
    # drop whole members deterministically: keep an evenly strided subset that contains first and last
    step = len(ps) / float(want)
    idx = sorted({int(i * step) for i in range(want)})
    return [ps[i] for i in idx]


def _deltas(kind, tier, seed):
    c = G.COMPACT[kind]
    out = [[0.0] * c]
    for k in range(c):
        for s in (1e-3, -1e-3):
            d = [0.0] * c
            d[k] = s
            out.append(d)
    gen = A.jit(seed, "delta", [0.11, -0.07, 0.05, 0.2, -0.1, 0.15])[:c]
    out.append(gen)
    if kind == "SE3":
        out.append([0.3, -0.2, 0.1, 0.3, -0.4, 0.0])  # rotational norm 0.5
        out.append([0.0, 0.0, 0.0, 3e-3, -4e-3, 0.0])  # small-angle regime
        # rotational part of norm exactly 1 (a half turn) is still inside the documented domain |delta_r| <= 1
        out.append([0.0, 0.0, 0.0, 1.0, 0.0, 0.0])
        out.append([0.5, 0.0, -1.0, 0.0, 0.0, -1.0])
        out.append([0.0, 1.0, -2.0, 0.6, 0.0, 0.8])
        u = 1.0 / 3.0 ** 0.5  # float norm is exactly 1.0 while the sum of squares is 1 + 2^-52
        out.append([0.1, 0.2, 0.3, u, u, u])
        out.append([0.0, 0.0, 0.0, -u, u, -u])
        if tier == "thorough":
            n = 1 - 1e-12
            out.append([1.0, 0.0, 0.0, 0.0, n, 0.0])
    # sub-nanometre increments (late Gauss-Newton iterations produce them)
    out.append([8e-10, -6e-10, 5e-10, 3e-10, -4e-10, 2e-10][:c])
    out.append(([0.0] * (c - 1)) + [7e-10])
    # increments with translations of thousands of units (far-apart initial guesses produce them)
    out.append(([2500.0, -1800.0, 900.0][: G.DIM[kind]] + [0.1, -0.2, 0.05])[:c] if kind == "SE3" else ([2500.0, -1800.0, 900.0][: G.DIM[kind]] + [0.3])[:c])
    if kind in ("R2", "R3"):
        out.append([1.0, -2.0, 3.0][:c])
    if kind == "SE3":
        out.append([1.0, 0.0, -2.0, 0.0, 0.0, 0.0])
    if kind == "SE2":
        out.append([1.0, -2.0, 3.0])
        out.append([1.0, 0.0, 0.0])
        out.append([0.0, 0.0, A.PI])
        out.append([0.5, 0.5, 10.0])  # more than one full turn
        out.append([0.0, 0.0, -7.5])
    return out


def _dyadic_T(n):
    return [[0.0] * n, [0.5, -1.25, 2.0][:n], [-3.0, 0.75, -0.5][:n]]


def chunks(tier, seed):
    out = []
    for kind in KINDS:
        n = len(_alpha(kind, tier, seed))
        for i in range(n):
            out.append(("pair", kind, i))
        out.append(("point", kind, 0))
        out.append(("unary", kind, 0))
        out.append(("boxplus", kind, 0))
        out.append(("chain", kind, 0))
        m = len(_thin(kind, tier, seed))
        for i in range(m):
            out.append(("triple", kind, i))
    for i in range(24):
        out.append(("exact", "SE3", i))
    return out


def _trivial(kind, *cs):
    ident = G.identity(kind)
    if any(list(c) == ident for c in cs):
        return True
    if kind == "SE2":
        return all(c[2] == 0.0 for c in cs)
    if kind == "SE3":
        return all(abs(c[6]) == 1.0 for c in cs)
    return False


def run_chunk(chunk, tier, seed):
    typ, kind, i = chunk
    acc = Acc(ID, signature)
    if typ == "pair":
        ps = _alpha(kind, tier, seed)
        a = ps[i]
        for b in ps:
            _do(acc, {"t": "pair", "kind": kind, "a": a, "b": b}, not _trivial(kind, a, b))
    elif typ == "point":
        for a in _alpha(kind, tier, seed):
            for p in _points(kind, tier, seed):
                _do(acc, {"t": "point", "kind": kind, "a": a, "p": p}, not _trivial(kind, a) and any(p))
    elif typ == "unary":
        for a in _alpha(kind, tier, seed):
            _do(acc, {"t": "unary", "kind": kind, "a": a}, not _trivial(kind, a))
    elif typ == "boxplus":
        for a in _alpha(kind, tier, seed):
            for d in _deltas(kind, tier, seed):
                _do(acc, {"t": "boxplus", "kind": kind, "a": a, "d": d}, not _trivial(kind, a) and any(d))
    elif typ == "chain":
        # results fed back in: x_{k+1} = x_k (+) b (and b (+) x_k, x_k [+] delta) for 200 steps, every step against the reference
        ps = _thin(kind, tier, seed)
        for a in ps[:6]:
            for b in ps[:6]:
                for mode in ("right", "left", "box"):
                    _do(acc, {"t": "chain", "kind": kind, "a": a, "b": b, "mode": mode, "steps": 200}, not _trivial(kind, b))
    elif typ == "triple":
        ps = _thin(kind, tier, seed)
        a = ps[i]
        for b in ps:
            for c in ps:
                _do(acc, {"t": "triple", "kind": kind, "a": a, "b": b, "c": c}, not _trivial(kind, a, b, c))
    elif typ == "exact":
        hs = A.hurwitz24()
        qa = hs[i]
        for ta in _dyadic_T(3):
            for qb in hs:
                for tb in _dyadic_T(3):
                    _do(acc, {"t": "exact", "kind": "SE3", "a": ta + qa, "b": tb + qb}, True)
    return acc


def _do(acc, case, nontrivial):
    acc.evals += 1
    acc.states += 1
    acc.traces += 1
    if nontrivial:
        acc.nontrivial += 1
    acc.cls(case["t"])
    kind = case["kind"]
    for key in ("a", "b", "c"):
        if key in case:
            c = case[key]
            if kind == "SE3":
                if c[6] < 0:
                    acc.cls("w_negative")
                if c[6] == 0:
                    acc.cls("w_zero")
            if kind == "SE2" and abs(abs(c[2]) - A.PI) < 1e-5:
                acc.cls("angle_seam")
    msgs, nops, ratio = _eval(case)
    acc.transitions += nops
    acc.ratio(ratio, case if ratio > 1e-3 else None)
    if msgs:
        acc.violation(case, msgs)
    acc.sample(case, 1)


def eval_case(case):
    return _eval(case)[0]


def signature(case, msgs):
    return {"t": case.get("t"), "kind": case.get("kind")}


class _Cmp:
    def __init__(self):
        self.msgs = []
        self.nops = 0
        self.ratio = 0.0

    def phys(self, what, kind, got_pose, exp_comps, scale, want_kind=None):
        """impl pose vs reference components, as physical transforms."""
        self.nops += 1
        wk = want_kind or kind
        gk = I.kind_of(got_pose)
        if gk != wk:
            self.msgs.append("%s: result type %s, expected %s" % (what, gk, wk))
            return
        got = I.comps(got_pose)
        if not all(np.isfinite(got)):
            self.msgs.append("%s: non-finite result %r" % (what, got))
            return
        d = G.phys_diff(wk, got, exp_comps)
        r = d / (TOL * scale)
        self.ratio = max(self.ratio, r)
        if r > 1.0:
            self.msgs.append("%s: |impl - ref| = %.3g > %.3g; impl=%r ref=%r" % (what, d, TOL * scale, got, [float(x) for x in exp_comps]))

    def arr(self, what, got, exp, scale):
        self.nops += 1
        got = np.asarray(got, dtype=float)
        exp = np.asarray(exp, dtype=float)
        if got.shape != exp.shape:
            self.msgs.append("%s: shape %r, expected %r" % (what, got.shape, exp.shape))
            return
        d = float(np.max(np.abs(got - exp))) if got.size else 0.0
        if d != d:
            self.msgs.append("%s: NaN" % what)
            return
        r = d / (TOL * scale)
        self.ratio = max(self.ratio, r)
        if r > 1.0:
            self.msgs.append("%s: max |impl - ref| = %.3g > %.3g" % (what, d, TOL * scale))


def _eval(case):
    c = _Cmp()
    try:
        _eval_inner(case, c)
    except Exception as e:  # an operation that must be total raised
        c.msgs.append("%s raised %s: %s" % (case["t"], type(e).__name__, e))
    return c.msgs, c.nops, c.ratio


def _stored(p):
    return I.comps(p)


def _eval_inner(case, c):
    kind = case["kind"]
    t = case["t"]
    pa = I.mk_pose(kind, case["a"])
    a = _stored(pa)  # the stored components ARE the input (constructor wrap is C11's business)
    a0 = list(a)
    if t in ("pair", "exact"):
        pb = I.mk_pose(kind, case["b"])
        b = _stored(pb)
        b0 = list(b)
        sc = G.tscale((kind, a), (kind, b)) ** 1
        sc = sc + abs(sc - 1) * 0  # 1 + max |t|
        sc2 = 1.0 + sum(abs(x) for x in a[: G.DIM[kind]]) + sum(abs(x) for x in b[: G.DIM[kind]])
        if t == "exact":
            fa = [Fraction(x) for x in a]
            fb = [Fraction(x) for x in b]
            for name, got, exp in (
                ("oplus", pa + pb, G.compose(kind, fa, fb)),
                ("ominus", pa - pb, G.ominus(kind, fa, fb)),
                ("inverse", pa.inverse, G.inverse(kind, fa)),
            ):
                c.nops += 1
                g = I.comps(got)
                e = [float(x) for x in exp]
                # same physical pose: components equal, or quaternion globally negated
                e2 = e[:3] + [-x for x in e[3:]]
                if not (all(x == y for x, y in zip(g, e)) or all(x == y for x, y in zip(g, e2))):
                    d = min(max(abs(x - y) for x, y in zip(g, e)), max(abs(x - y) for x, y in zip(g, e2)))
                    c.ratio = max(c.ratio, d / 1e-14)
                    if d > 1e-14:
                        c.msgs.append("exact tier %s: impl %r differs from exact rational result %r by %.3g" % (name, g, e, d))
            return
        r = pa + pb
        c.phys("a (+) b", kind, r, G.compose(kind, a, b), sc2)
        # M(a (+) b) = M(a) M(b)
        Mexp = G.matmul(G.to_mat(kind, a), G.to_mat(kind, b))
        c.arr("M(a(+)b) = M(a)M(b)", G.to_mat(kind, I.comps(r)), Mexp, sc2)
        d = pa - pb
        c.phys("a (-) b", kind, d, G.ominus(kind, a, b), sc2)
        c.phys("a (-) b = b^-1 (+) a", kind, pb.inverse + pa, I.comps(d), sc2)
        Mexp = G.matmul(G.mat_inv_rigid(G.to_mat(kind, b)), G.to_mat(kind, a))
        c.arr("M(a(-)b) = M(b)^-1 M(a)", G.to_mat(kind, I.comps(d)), Mexp, sc2)
        # (a (+) b) (-) b = a ; (a (-) b) (+)-left ... b (+) (a (-) b) = a
        c.phys("b (+) (a (-) b) = a", kind, pb + d, a, sc2 * 2)
        # the in-place spelling equals composition (whether it rebinds or updates in place is not C09's business: it works on a copy)
        q = pa.copy()
        q += pb
        c.phys("p += q", kind, q, I.comps(r), sc2)
        c.nops += 1
        if _stored(pa) != a0 or _stored(pb) != b0:
            c.msgs.append("operator mutated an operand")
        # history: the left operand is edited IN PLACE (poses are arrays) and used again -- no stale intermediate results
        pa.inverse  # (already evaluated once for the old value)
        np.asarray(pa)[...] = b
        c.phys("after in-place edit: a (+) b", kind, pa + pb, G.compose(kind, b, b), sc2 * 2)
        c.phys("after in-place edit: a^-1", kind, pa.inverse, G.inverse(kind, b), sc2 * 2)
        c.phys("after in-place edit: a (-) b", kind, pa - pb, G.identity(kind), sc2 * 2)
        if kind in ("SE2", "SE3"):
            pt = [0.3, -0.7, 1.1][: G.DIM[kind]]
            c.phys("after in-place edit: a (+) point", I.POINT_OF[kind], pa + np.array(pt), G.act(kind, b, pt), sc2 * 2, want_kind=I.POINT_OF[kind])
        np.asarray(pa)[...] = a0
        # results handed out earlier stay what they were while other poses are composed (no shared result buffers)
        r_keep = pa + pb
        d_keep = pa - pb
        v1, v2 = I.comps(r_keep), I.comps(d_keep)
        _ = pb + pa
        _ = pb - pa
        _ = pb.inverse
        c.nops += 1
        if I.comps(r_keep) != v1 or I.comps(d_keep) != v2:
            c.msgs.append("a result returned earlier changed when other poses were composed (shared result buffer)")
        # ndarray operand forms the library documents by dispatch on length
        if kind in ("R2", "R3"):
            c.phys("a (+) ndarray", kind, pa + np.array(b), G.compose(kind, a, b), sc2)
        if kind == "SE2":
            c.phys("a (+) ndarray(3)", kind, pa + np.array(b), G.compose(kind, a, b), sc2)
        return
    if t == "point":
        p = case["p"]
        pk = I.POINT_OF[kind]
        pp = I.mk_pose(pk, p)
        sc = 1.0 + sum(abs(x) for x in a[: G.DIM[kind]]) + sum(abs(x) for x in p)
        exp = G.mat_apply(G.to_mat(kind, a), p)
        c.phys("pose (+) point", pk, pa + pp, exp, sc, want_kind=pk)
        c.phys("pose (+) ndarray point", pk, pa + np.array(p, dtype=float), exp, sc, want_kind=pk)
        c.phys("act() agrees", pk, pa + pp, G.act(kind, a, p), sc, want_kind=pk)
        first = pa + pp
        keep = I.comps(first)
        other_pose = I.mk_pose(kind, [x + 1.0 for x in a[: G.DIM[kind]]] + a[G.DIM[kind] :])
        _ = other_pose + I.mk_pose(pk, [x - 2.0 for x in p])
        _ = other_pose + np.array(p, dtype=float)
        c.nops += 1
        if I.comps(first) != keep:
            c.msgs.append("a point returned by pose (+) point changed when another pose (+) point was evaluated (shared result buffer)")
        return
    if t == "unary":
        sc = 1.0 + 2 * sum(abs(x) for x in a[: G.DIM[kind]])
        inv = pa.inverse
        e = G.identity(kind)
        c.phys("inverse", kind, inv, G.inverse(kind, a), sc)
        c.phys("p (+) p^-1 = e", kind, pa + inv, e, sc)
        c.phys("p^-1 (+) p = e", kind, inv + pa, e, sc)
        c.phys("(p^-1)^-1 = p", kind, inv.inverse, a, sc)
        ident = I.CLS[kind].identity()
        c.phys("identity()", kind, ident, e, 1.0)
        c.phys("e (+) p = p", kind, ident + pa, a, sc)
        c.phys("p (+) e = p", kind, pa + ident, a, sc)
        c.phys("p (-) e = p", kind, pa - ident, a, sc)
        c.phys("p (-) p = e", kind, pa - pa, e, sc)
        # the result of an operation is a pose of its own, also when the other operand is neutral
        for what, r_ in (("p (+) e", pa + ident), ("p (-) e", pa - ident), ("p [+] 0", pa + np.zeros(G.COMPACT[kind]))):
            c.nops += 1
            np.asarray(r_)[0] += 1.0
            if _stored(pa) != a0:
                c.msgs.append("writing into the result of %s changed p (the result aliases the operand)" % what)
                np.asarray(pa)[...] = a0
        if kind in ("SE2", "SE3"):
            c.arr("to_matrix", pa.to_matrix(), G.to_mat(kind, a), sc)
        if kind == "SE2":
            c.phys("from_matrix(to_matrix(p))", kind, I.CLS[kind].from_matrix(pa.to_matrix()), a, sc)
            c.phys("from_matrix(M_ref)", kind, I.CLS[kind].from_matrix(np.array(G.to_mat(kind, a))), a, sc)
        # an instance of a user subclass whose constructor has ANOTHER signature (a required time stamp) behaves like the base class
        base = I.CLS[kind]

        class Stamped(base):
            def __new__(cls, stamp, *args):
                obj = base.__new__(cls, *args) if cls is not base else base.__new__(base, *args)
                obj = np.asarray(obj).view(cls)
                obj.stamp = stamp
                return obj

            def __array_finalize__(self, obj):
                self.stamp = getattr(obj, "stamp", None)

        sp = np.asarray(pa).view(Stamped)
        sp.stamp = 12.5
        try:
            c.phys("subclass instance: p^-1", kind, sp.inverse, G.inverse(kind, a), sc)
            c.phys("subclass instance: p (+) p", kind, sp + sp, G.compose(kind, a, a), sc * 2)
            c.phys("subclass instance: p (-) p", kind, sp - sp, e, sc * 2)
            c.phys("subclass instance: copy", kind, sp.copy(), a, sc)
            c.phys("subclass instance: p [+] 0", kind, sp + np.zeros(G.COMPACT[kind]), a, sc)
        except Exception as ex:
            c.msgs.append("an operation on an instance of a pose subclass with its own constructor signature raised %s: %s" % (type(ex).__name__, ex))
        # identity() hands out independent objects
        scratch = I.CLS[kind].identity()
        np.asarray(scratch)[: G.DIM[kind]] = 5.0
        c.phys("identity() after an earlier identity() object was edited in place", kind, I.CLS[kind].identity(), e, 1.0)
        # a pose built from single-precision input is still a double-precision pose
        if kind in ("R2", "R3"):
            a32 = np.array([round(x * 8) / 8 for x in a], dtype=np.float32)
            p32 = I.CLS[kind](a32)
            big = I.CLS[kind]([2.0**24 + 1.0] + [0.5] * (len(a) - 1))
            c.phys("pose built from a float32 array, composed with a large double pose", kind, (p32 + big) - p32, I.comps(big), 1.0 + 2.0**24 * 1e-9)
            # ... also when BOTH operands come from reduced-precision arrays whose sum that precision cannot hold
            for dt, top in ((np.float32, 2.0**24), (np.float16, 2.0**11)):
                q = I.CLS[kind](np.array([top] + [0.25] * (len(a) - 1), dtype=dt))
                one = I.CLS[kind](np.array([1.0] + [0.5] * (len(a) - 1), dtype=dt))
                c.phys("(a (+) b) (-) b for two poses built from %s arrays" % dt.__name__, kind, (one + q) - q, [1.0] + [0.5] * (len(a) - 1), 1.0 + top * 1e-9)
                c.phys("a (+) b for two poses built from %s arrays" % dt.__name__, kind, one + q, [top + 1.0] + [0.75] * (len(a) - 1), 1.0 + top * 1e-9)
        cp = pa.copy()
        c.phys("copy", kind, cp, a, sc)
        c.nops += 1
        if cp is pa or np.shares_memory(np.asarray(cp), np.asarray(pa)):
            c.msgs.append("copy() shares memory with the original")
        c.arr("to_array", pa.to_array(), a, 1.0)
        c.arr("to_compact", pa.to_compact(), G.compact(kind, a), 1.0)
        c.arr("position", pa.position, a[: G.DIM[kind]], 1.0)
        if _stored(pa) != a0:
            c.msgs.append("a unary query mutated the pose")
        return
    if t == "triple":
        pb = I.mk_pose(kind, case["b"])
        pc = I.mk_pose(kind, case["c"])
        b, cc = _stored(pb), _stored(pc)
        sc = 1.0 + sum(abs(x) for x in a[: G.DIM[kind]]) + sum(abs(x) for x in b[: G.DIM[kind]]) + sum(abs(x) for x in cc[: G.DIM[kind]])
        lhs = (pa + pb) + pc
        rhs = pa + (pb + pc)
        c.phys("(a(+)b)(+)c = a(+)(b(+)c)", kind, lhs, I.comps(rhs), sc)
        c.phys("(a(+)b)(+)c vs ref", kind, lhs, G.compose(kind, G.compose(kind, a, b), cc), sc)
        # (a (+) b) (-) (c (+) b)... right-cancellation: (a(+)c) (-) (b(+)c)  has no simple law; use left: (c(+)a) (-) (c(+)b) = a (-) b
        c.phys("(c(+)a)(-)(c(+)b) = a(-)b", kind, (pc + pa) - (pc + pb), I.comps(pa - pb), sc * 2)
        return
    if t == "chain":
        pb = I.mk_pose(kind, case["b"])
        b = _stored(pb)
        x, ref = pa, list(a)
        # keep translations bounded: the step is b with its translation scaled into the unit box
        tb = [v / (1.0 + max(abs(w) for w in b[: G.DIM[kind]])) for v in b[: G.DIM[kind]]]
        b = tb + b[G.DIM[kind] :]
        pb = I.mk_pose(kind, b)
        b = _stored(pb)
        dlt = G.compact(kind, b)
        if kind == "SE3" and b[6] < 1e-3:
            dlt = None  # compact form of a w < 0 quaternion is the other hemisphere's pose, and near a half turn w = sqrt(1 - |v|^2) is ill-conditioned (sqrt(eps)): no boxplus chain
        for k in range(case["steps"]):
            if case["mode"] == "right":
                x = x + pb
                ref = G.compose(kind, ref, b)
            elif case["mode"] == "left":
                x = pb + x
                ref = G.compose(kind, b, ref)
            else:
                if dlt is None:
                    break
                x = x + np.array(dlt, dtype=float)
                ref = G.compose(kind, ref, G.exp_compact(kind, dlt))
            if kind == "SE3":
                nrm = math.sqrt(sum(v * v for v in ref[3:]))
                ref = ref[:3] + [v / nrm for v in ref[3:]]  # the reference stays on the unit sphere
            scl = 1.0 + sum(abs(v) for v in ref[: G.DIM[kind]])
            c.nops += 1
            d_ = G.phys_diff(kind, I.comps(x), ref)
            r_ = d_ / (1e-12 * (k + 1) * scl + TOL * 1e-3)
            c.ratio = max(c.ratio, r_)
            if not r_ <= 1.0:
                c.msgs.append("chain %s, step %d: result differs from the reference product by %.3g (> %.3g); impl=%r ref=%r" % (case["mode"], k + 1, d_, 1e-12 * (k + 1) * scl + TOL * 1e-3, I.comps(x), ref))
                break
        return
    if t == "boxplus":
        d = case["d"]
        sc = 1.0 + sum(abs(x) for x in a[: G.DIM[kind]]) + sum(abs(x) for x in d[: G.DIM[kind]])
        ex = G.exp_compact(kind, d)
        exp = G.compose(kind, a, ex)
        got = pa + np.array(d, dtype=float)
        c.phys("p [+] delta = p (+) Exp(delta)", kind, got, exp, sc)
        if any(d) and max(abs(x) for x in d) < 1e-8:
            # sub-nanometre increments still move the pose: compared at 1e-13 x scale (1e-4 of the increment), not at the usual 1e-9
            q3 = pa.copy()
            q3 += np.array(d, dtype=float)
            for what, r_ in (("p [+] tiny delta", got), ("p += tiny delta", q3)):
                dd = G.phys_diff(kind, I.comps(r_), exp)
                c.nops += 1
                if dd > 1e-13 * sc:
                    c.msgs.append("%s: result differs from p (+) Exp(delta) by %.3g (> %.3g); delta=%r" % (what, dd, 1e-13 * sc, d))
        c.phys("p [+] delta vs impl p (+) Exp(delta)", kind, got, I.comps(pa + I.mk_pose(kind, ex)), sc)
        q = pa
        darr = np.array(d, dtype=float)
        q += darr
        c.phys("p += delta", kind, q, exp, sc)
        if _stored(pa) != a0:
            c.msgs.append("boxplus mutated its operand")
        if darr.tolist() != [float(x) for x in d]:
            c.msgs.append("boxplus mutated the increment array")
        # increments given as integer / single-precision arrays (values exactly representable there) are the same increments
        if all(float(x) == int(x) for x in d):
            for dt in (np.int64, np.int32, np.float32):
                c.phys("p [+] delta with a %s increment array" % np.dtype(dt).name, kind, pa + np.array(d, dtype=dt), exp, sc)
                q2 = pa.copy()
                q2 += np.array(d, dtype=dt)
                c.phys("p += delta with a %s increment array" % np.dtype(dt).name, kind, q2, exp, sc)
        if kind == "SE3":
            # outside the documented domain (|delta_r| > 1) the value is not judged, but operands must still not be mutated
            big = np.array([0.1, 0.2, 0.3, 0.9, -0.8, 0.7])
            keep = big.copy()
            r_ = pa + big
            c.nops += 1
            if not np.array_equal(big, keep) or _stored(pa) != a0:
                c.msgs.append("boxplus with |delta_r| > 1 mutated an operand")
            if not all(np.isfinite(I.comps(r_))):
                c.msgs.append("boxplus with |delta_r| > 1 returned a non-finite pose")
        return
    raise ValueError(t)
