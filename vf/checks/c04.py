"""C04 - linear (R^2/R^3) graphs are solved to the global weighted-least-squares optimum (engine E1)."""
import itertools
import math

import numpy as np

from .. import alphabets as A
from .. import gbuild as GB
from ..ref import wls
from ..runner import Acc

ID = "C04"

META = {
    "rule": "every connected multigraph topology (multiset of unordered vertex pairs) on n labelled R^d vertices with at most n+1 edges, n<=3 complete, n=4 (quick: <=4 edges), "
    "thorough n=5 (<=5 edges) x edge flavour pattern (odometry/landmark-with-offset, either orientation, alternating) x d in {2,3} x every non-empty fixed subset "
    "x initial guess {truth, generic, far 1e6, mixed signs} x information {I, SPD cross terms, cond 1e4, 1e-10 x SPD, edge 0 scaled 1e-5 and the others 1e6} x noise {0, generic}; plus structured families "
    "chain/ring/star/grid/complete with 10, 20, 30 vertices. For init=generic the judged run is the SECOND run on the same Graph object (first run: one more vertex fixed, other initial guess; then released and re-seeded). Oracle: closed-form reduced WLS (Cholesky-whitened lstsq) for poses and chi2. "
    "non-trivial = at least one free vertex and the optimum differs from the initial guess by more than 1e-6",
    "assumptions": ["numpy cholesky/lstsq trusted on <= 90 unknowns", "exhaustive up to 4 (quick) / 5 (thorough) vertices; structured (not exhaustive) families above", "tolerance 1e-7 x (1 + scale)"],
    "required_classes": ["single_iteration_run", "first_listed_vertex_has_largest_id", "information_scales_1e11_apart", "shared_guess_array", "fix_first_pose_true", "second_run_on_same_graph", "tree", "loop", "multi_edge", "landmark_offset", "reversed_orientation", "several_fixed", "far_init", "ill_conditioned", "noise_free", "noisy", "structured", "d2", "d3"],
    "bounds": {"quick": "n<=3 all; n=4 with <=4 edges; fixed subsets of size <=2; init {generic, far}; Omega {spd, ill}; noise {0 (n<=3), generic}", "thorough": "n<=4 all (<=5 edges); n=5 <=5 edges with single fixed vertex; all factors"},
}

FLAVOURS = ("odo_fwd", "odo_rev", "lm_fwd", "lm_rev", "alt_type", "alt_orient")
INITS = ("truth", "generic", "far", "mixed")
OMS = ("I", "spd", "ill", "tiny", "mixed", "aba")
NOISES = ("zero", "generic")


def topologies(n, max_edges):
    pairs = list(itertools.combinations(range(n), 2))
    out = []
    for k in range(max(1, n - 1), max_edges + 1):
        for ms in itertools.combinations_with_replacement(range(len(pairs)), k):
            es = [pairs[i] for i in ms]
            if _connected(n, es):
                out.append(es)
    return out


def _connected(n, es):
    parent = list(range(n))

    def find(a):
        while parent[a] != a:
            parent[a] = parent[parent[a]]
            a = parent[a]
        return a

    for a, b in es:
        parent[find(a)] = find(b)
    return len({find(i) for i in range(n)}) == 1


def structured(name, n):
    if name == "chain":
        return [(i, i + 1) for i in range(n - 1)]
    if name == "ring":
        return [(i, (i + 1) % n) for i in range(n)]
    if name == "star":
        return [(0, i) for i in range(1, n)]
    if name == "grid":
        w = 5
        es = []
        for i in range(n):
            if (i + 1) % w and i + 1 < n:
                es.append((i, i + 1))
            if i + w < n:
                es.append((i, i + w))
        return es
    if name == "complete":
        m = min(n, 12)
        es = [(i, j) for i in range(m) for j in range(i + 1, m)]
        es += [(i - 1, i) for i in range(m, n)]
        return es
    raise ValueError(name)


def _omega(d, name, k, seed):
    if name == "I":
        return [[1.0 if i == j else 0.0 for j in range(d)] for i in range(d)]
    if name == "spd":
        return A.spd(d, seed, "c04-%d" % (k % 5))
    if name == "aba":  # exactly diagonal, first and last entry equal, middle one different (not a multiple of the identity)
        return [[(2.0 if i in (0, d - 1) else 5.0) + 0.5 * (k % 2) if i == j else 0.0 for j in range(d)] for i in range(d)] if d == 3 else [[2.0 + 0.5 * (k % 2), 0.0], [0.0, 5.0]]
    if name == "mixed":  # scales that differ by 1e11 between edges (a weakly attached vertex next to strongly tied ones)
        return [[(1e-5 if k == 0 else 1e6) * x for x in r] for r in A.spd(d, seed, "c04-%d" % (k % 5))]
    if name == "tiny":  # weak information: gradient entries far below any absolute threshold, same optimum
        return [[1e-10 * x for x in r] for r in A.spd(d, seed, "c04-%d" % (k % 5))]
    # cond 1e4 with cross terms: R diag(1, 1e-4[, 1e-2]) R^T
    th = 0.6 + 0.1 * (k % 3)
    c, s = math.cos(th), math.sin(th)
    if d == 2:
        R = np.array([[c, -s], [s, c]])
        D = np.diag([1.0, 1e-4])
    else:
        R = np.array([[c, -s, 0], [s, c, 0], [0, 0, 1.0]]).dot(np.array([[1, 0, 0], [0, c, -s], [0, s, c]]))
        D = np.diag([1.0, 1e-4, 1e-2])
    M = R.dot(D).dot(R.T)
    M = 0.5 * (M + M.T)
    return M.tolist()


def make_spec(n, d, es, flavour, fixed, init, om, noise, seed):
    kind = "R2" if d == 2 else "R3"
    truth = [[math.sin(1.3 * i + 0.5 * a) * 2.0 + 0.3 * i * (-1) ** a for a in range(d)] for i in range(n)]
    if seed:
        truth = [A.jit(seed, "c04t%d" % i, t, rel=0.15) for i, t in enumerate(truth)]
    verts = []
    for i in range(n):
        if init == "truth":
            p = list(truth[i])
        elif init == "generic":
            p = [truth[i][a] + 0.7 * math.cos(2.1 * i + a) for a in range(d)]
        elif init == "far":
            p = [1e6 * math.cos(0.7 * i + a) + 3e5 for a in range(d)]
        else:
            p = [(-1) ** (i + a) * (5.0 + i) for a in range(d)]
        verts.append({"id": i, "kind": kind, "pose": p, "fixed": bool(fixed[i])})
    edges = []
    for k, (a, b) in enumerate(es):
        if flavour == "odo_fwd":
            typ, rev = "odo", False
        elif flavour == "odo_rev":
            typ, rev = "odo", True
        elif flavour == "lm_fwd":
            typ, rev = "lm", False
        elif flavour == "lm_rev":
            typ, rev = "lm", True
        elif flavour == "alt_type":
            typ, rev = ("odo", False) if k % 2 == 0 else ("lm", True)
        else:
            typ, rev = ("lm", k % 2 == 1) if k % 3 == 0 else ("odo", k % 2 == 0)
        i, j = (b, a) if rev else (a, b)
        nz = [0.0] * d if noise == "zero" else [0.15 * math.sin(1.7 * k + 0.9 * c + 0.3) for c in range(d)]
        # a repeated vertex pair in the "fwd" flavours is an EXACT duplicate (two independent, bitwise-equal measurements)
        kk = k
        if flavour in ("odo_fwd", "lm_fwd") and (a, b) in es[:k]:
            kk = es.index((a, b))
            nz = [0.0] * d if noise == "zero" else [0.15 * math.sin(1.7 * kk + 0.9 * c + 0.3) for c in range(d)]
        if typ == "odo":
            z = [truth[j][c] - truth[i][c] + nz[c] for c in range(d)]
            edges.append({"type": "odo", "ids": [i, j], "z": z, "om": _omega(d, om, kk, seed)})
        else:
            off = [0.2 + 0.1 * (kk % 3), -0.4, 0.3][:d]
            z = [truth[j][c] - truth[i][c] - off[c] + nz[c] for c in range(d)]
            edges.append({"type": "lm", "ids": [i, j], "z": z, "off": off, "om": _omega(d, om, kk, seed)})
    return {"vertices": verts, "edges": edges}


def chunks(tier, seed):
    out = []
    for n in (2, 3, 4):
        me = n + 1
        if tier == "quick" and n == 4:
            me = 4
        tops = topologies(n, me)
        parts = 32 if n == 4 else (4 if n == 3 else 1)
        for p in range(parts):
            out.append(("exh", n, me, p, parts))
    if tier == "thorough":
        for p in range(16):
            out.append(("exh5", 5, 5, p, 16))
    for name in ("chain", "ring", "star", "grid", "complete"):
        for n in (10, 20, 30):
            for fl in FLAVOURS:
                out.append(("struct", name, n, fl, 1))
    return out


def _fixed_subsets(n, tier, single=False):
    subs = [f for f in itertools.product((False, True), repeat=n) if any(f)]
    if single:
        return [f for f in subs if sum(f) == 1]
    if tier == "quick":
        return [f for f in subs if sum(f) <= 2]
    return subs


def run_chunk(chunk, tier, seed):
    acc = Acc(ID, signature)
    typ = chunk[0]
    if typ in ("exh", "exh5"):
        _, n, me, part, parts = chunk
        tops = topologies(n, me)
        single = typ == "exh5"
        if tier == "quick":
            inits, oms, noises = ("generic", "far"), ("spd", "ill", "tiny", "mixed", "aba"), (("zero", "generic") if n <= 3 else ("generic",))
        elif single:
            inits, oms, noises = ("far",), ("spd",), ("generic",)
        else:
            inits, oms, noises = INITS, OMS, NOISES
        for k, es in enumerate(tops):
            if k % parts != part:
                continue
            for fl in FLAVOURS:
                for d in (2, 3):
                    for fixed in _fixed_subsets(n, tier, single):
                        for init in inits:
                            for om in oms:
                                if tier == "quick" and om in ("tiny", "mixed", "aba") and init != "generic":
                                    continue
                                for nz in noises:
                                    _do(acc, {"n": n, "d": d, "es": [list(e) for e in es], "fl": fl, "fixed": list(fixed), "init": init, "om": om, "noise": nz, "seed": seed})
    else:
        _, name, n, fl0, _ = chunk
        es = structured(name, n)
        for fl in (fl0,):
            for d in (2, 3):
                for fixed_idx in ([0], [n - 1], [0, n // 2]):
                    fixed = [i in fixed_idx for i in range(n)]
                    for init in ("generic", "far"):
                        for om in (OMS if tier == "thorough" else ("spd",)):
                            for nz in NOISES:
                                _do(acc, {"n": n, "d": d, "es": [list(e) for e in es], "fl": fl, "fixed": fixed, "init": init, "om": om, "noise": nz, "seed": seed, "structured": name})
    return acc


def _do(acc, case):
    acc.evals += 1
    acc.states += 1
    acc.traces += 1
    msgs, info = _eval(case)
    acc.transitions += info.get("iters", 1)
    for c in info.get("classes", ()):
        acc.cls(c)
    acc.outcome("iterations=%s" % info.get("iters"))
    if info.get("nontrivial"):
        acc.nontrivial += 1
    acc.ratio(info.get("ratio", 0.0), case if info.get("ratio", 0) > 1e-2 else None)
    if msgs:
        acc.violation(case, msgs)
    acc.sample(case, 1)


def eval_case(case):
    return _eval(case)[0]


def signature(case, msgs):
    return {"fl": case.get("fl"), "init": case.get("init")}


def _eval(case):
    try:
        return _eval_inner(case)
    except Exception as ex:
        import traceback

        return ["raised %s: %s | %s" % (type(ex).__name__, ex, traceback.format_exc()[-500:])], {"ratio": float("inf")}


def _eval_inner(case):
    n, d = case["n"], case["d"]
    es = [tuple(e) for e in case["es"]]
    spec = make_spec(n, d, es, case["fl"], case["fixed"], case["init"], case["om"], case["noise"], case["seed"])
    classes = ["d%d" % d]
    if len(es) == n - 1:
        classes.append("tree")
    if len(es) >= n:
        classes.append("loop")
    if len(set(es)) < len(es):
        classes.append("multi_edge")
    if any(e["type"] == "lm" for e in spec["edges"]):
        classes.append("landmark_offset")
    if case["fl"] in ("odo_rev", "lm_rev", "alt_type", "alt_orient"):
        classes.append("reversed_orientation")
    if sum(case["fixed"]) >= 2:
        classes.append("several_fixed")
    if case["init"] == "far":
        classes.append("far_init")
    if case["om"] == "ill":
        classes.append("ill_conditioned")
    if case["om"] == "mixed":
        classes.append("information_scales_1e11_apart")
    classes.append("noise_free" if case["noise"] == "zero" else "noisy")
    if case.get("structured"):
        classes.append("structured")
    # fix_first_pose=True (the default of optimize) adds the first listed vertex to whatever is already marked
    ffp = case["init"] == "mixed" or (case["init"] == "far" and sum(case["fixed"]) >= 2)
    eff = list(case["fixed"])
    if ffp:
        eff[0] = True
        classes.append("fix_first_pose_true")
    if ffp:
        # the first LISTED vertex is not the one with the smallest id
        n_ = len(spec["vertices"])
        for v in spec["vertices"]:
            v["id"] = n_ - 1 - v["id"]
        for e in spec["edges"]:
            e["ids"] = [n_ - 1 - i for i in e["ids"]]
        classes.append("first_listed_vertex_has_largest_id")
    sol, chi2s, cond = wls.solve(spec, eff)
    g, verts, edges = GB.build(spec)
    if case["init"] == "generic":
        # history: the same Graph object was already optimised once with one MORE vertex fixed and from another initial guess;
        # then that vertex is released and every free vertex is re-seeded: the run below must still reach the optimum
        classes.append("second_run_on_same_graph")
        free = [i for i, f in enumerate(case["fixed"]) if not f]
        keep = [np.array(v.pose, dtype=float) for v in verts]
        if len(free) >= 2:
            verts[free[-1]].fixed = True
        for i in free:
            verts[i].pose = type(verts[i].pose)([3.0 - x for x in keep[i]])
        # (when the caller has fixed the first vertex, asking for fix_first_pose=True as well changes nothing - also not afterwards)
        GB.optimize(g, max_iter=2, fix_first_pose=bool(case["fixed"][0]))
        if len(free) >= 2:
            verts[free[-1]].fixed = False
        for i in free:
            verts[i].pose = type(verts[i].pose)(keep[i])
    if case["init"] in ("mixed", "far") and sum(eff) == 1 and sum(1 for f in eff if not f) >= 2:
        # every free vertex gets its initial guess from the SAME ndarray (R^n poses are views of what they are built from)
        classes.append("shared_guess_array")
        guess = np.array([0.25, -0.75, 1.5][:d])
        for i, v in enumerate(verts):
            if not eff[i]:
                v.pose = type(v.pose)(guess)
    before = GB.snapshot(verts)
    one = case["om"] == "aba" and case["init"] == "generic" and cond < 1e6
    if one:
        # a linear problem is solved by ONE iteration; the report of optimize(max_iter=1) is that of the returned poses
        classes.append("single_iteration_run")
        res = GB.optimize(g, max_iter=1, fix_first_pose=ffp)
    else:
        res = GB.optimize(g, fix_first_pose=ffp)
    after = GB.snapshot(verts)
    msgs = []
    ratio = 0.0
    moved = False
    for i, v in enumerate(spec["vertices"]):
        if eff[i]:
            if after[i][2] != before[i][2]:
                msgs.append("fixed vertex %d moved" % i)
            continue
        x = sol[v["id"]]
        if float(np.max(np.abs(x - np.array(before[i][2])))) > 1e-6:
            moved = True
        scale = 1.0 + float(np.max(np.abs(x)))
        dd = float(np.max(np.abs(np.array(after[i][2]) - x)))
        # information scales 1e11 apart: the normal equations have a condition number of 1e11+, double precision leaves ~1e-6
        tol = (1e-4 if case["om"] == "mixed" else 1e-7) * scale
        ratio = max(ratio, dd / tol) if dd == dd else float("inf")
        if not dd <= tol:
            msgs.append("vertex %d after optimize() = %r but the weighted-least-squares optimum is %r (|diff| %.3g > %.3g; %d iterations, converged=%s)" % (i, after[i][2], x.tolist(), dd, tol, res.num_iterations, res.converged))
    sc2 = 1.0 + max(max(abs(c) for c in b[2]) for b in before)
    osc = 1e-10 if case["om"] == "tiny" else (1e6 if case["om"] == "mixed" else 1.0)
    tolc = 1e-7 * (osc + chi2s) + 1e-18 * sc2 * sc2 * osc
    if not abs(res.final_chi2 - chi2s) <= tolc:
        msgs.append("final_chi2 = %.17g but chi2 at the optimum is %.17g" % (res.final_chi2, chi2s))
    else:
        ratio = max(ratio, abs(res.final_chi2 - chi2s) / tolc)
    c2 = float(g.calc_chi2())
    if not abs(c2 - res.final_chi2) <= 1e-12 * (osc + abs(c2)):
        msgs.append("final_chi2 %.17g differs from calc_chi2() of the returned graph %.17g" % (res.final_chi2, c2))
    return msgs, {"ratio": ratio, "classes": classes, "iters": res.num_iterations, "nontrivial": moved and not all(eff)}
