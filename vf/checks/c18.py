"""C18 - graph construction binds edges by vertex id and rejects ill-typed edges.
Engine E1; the space named by the property is enumerated completely (same space in quick and thorough;
thorough adds id alphabets, custom edges with their own validity predicate and multi-edge graphs)."""
import itertools

import numpy as np

from .. import impl as I
from ..runner import Acc

ID = "C18"
TITLE = "Graph construction binds edges by vertex id and rejects ill-typed edges"

KINDS = ("R2", "R3", "SE2", "SE3")
MEAS = ("R2", "R3", "SE2", "SE3", "ndarray", "None")
SHAPES = [(n, n) for n in range(1, 8)] + [(n, n + 1) for n in range(1, 8)]
ORDERS = ("named", "reversed", "distractor")
LANDMARK_OK = {("SE2", "R2"), ("SE3", "R3"), ("R2", "R2"), ("R3", "R3")}

META = {
    "rule": "full product (edge kind) x (vertex count 1..3) x (pose type of each endpoint) x (measurement type in R2,R3,SE2,SE3,ndarray,None) x "
    "(offset type, landmark only) x (information shape n x n, n x (n+1), n=1..7) x (id present/absent) x (vertex list order: named, reversed, distractor first) x (edge object fresh / already bound to other vertex objects with the same ids / all endpoints marked fixed / ids given as a tuple / as numpy integers / information all zero / all ones); "
    "oracle = truth table written from the documentation; non-trivial = the configuration differs from a consistent one in exactly one factor, or is consistent",
    "assumptions": [
        "python is not run with -O (the validity check is an assert)",
        "a landmark edge whose offset is None is not judged for accept/reject (documentation allows None in the signature but defines no meaning)",
        "truth table vf/checks/c18.py:expected_valid is trusted",
    ],
    "required_classes": ["variant:edge_deepcopy", "variant:edge_pickle", "variant:allfixed", "variant:tuple_ids", "variant:npint_ids", "variant:info_zero", "variant:info_rank1", "prebound_stale", "accepted", "rejected", "order:named", "order:reversed", "order:distractor", "id_absent", "landmark", "odometry"],
    "bounds": {"quick": "the complete product named in the property + id alphabets (negative, sparse, huge) + custom edges with their own is_valid + all ordered 2-edge graphs over a consistent/inconsistent edge alphabet (a bad edge after a good edge of the same kind; both edges naming the same two vertices) + every vertex-list order of 3..5-vertex graphs (ids 0..N-1 and sparse) + every line order of a 5-line .g2o file with and without an unknown id", "thorough": "same"},
}

_VAL = {
    "R2": [0.7, -1.3],
    "R3": [0.7, -1.3, 2.1],
    "SE2": [0.7, -1.3, 0.4],
    "SE3": [0.7, -1.3, 2.1, 0.18257418583505536, -0.3651483716701107, 0.5477225575051661, 0.7302967433402214],
}


def expected_valid(case):
    """Truth table from the documentation."""
    pt = case["ptypes"]
    if case["absent"]:
        return False
    if len(pt) != 2:
        return False
    sh = tuple(case["shape"])
    if case["edge"] == "odometry":
        if not (pt[0] == pt[1] == case["meas"]):
            return False
        c = I.COMPACT[pt[0]]
        return sh == (c, c)
    if (pt[0], pt[1]) not in LANDMARK_OK:
        return False
    if case["offset"] != pt[0] or case["meas"] != pt[1]:
        return False
    c = I.COMPACT[pt[1]]
    return sh == (c, c)


def _mk_meas(kind, like):
    if kind == "None":
        return None
    if kind == "ndarray":
        return np.array(_VAL[like][: I.COMPACT[like]], dtype=float)
    return I.mk_pose(kind, _VAL[kind])


def chunks(tier, seed):
    out = []
    for edge in ("odometry", "landmark"):
        for count in (1, 2, 3):
            for pt in itertools.product(KINDS, repeat=count):
                out.append(("prod", edge, list(pt)))
    out.append(("ids", None, None))
    out.append(("custom", None, None))
    out.append(("multi", None, None))
    out.append(("dup", None, None))
    out.append(("perm", None, None))
    out.append(("file", None, None))
    return out


def _cases_prod(edge, pt):
    offs = MEAS if edge == "landmark" else (None,)
    for meas in MEAS:
        for off in offs:
            for sh in SHAPES:
                for absent in (False, True):
                    for order in ORDERS:
                        for pre in (None, "stale"):
                            yield {"t": "prod", "edge": edge, "ptypes": pt, "meas": meas, "offset": off, "shape": list(sh), "absent": absent, "order": order, "ids": None, "prebound": pre}
                        # the same verdict when every endpoint is marked fixed, when the ids come as a tuple / as numpy integers, and
                        # when the information matrix (of whatever shape) is singular: none of these is part of "consistent"
                        for var in ("allfixed", "tuple_ids", "npint_ids", "info_zero", "info_rank1", "edge_deepcopy", "edge_pickle"):
                            yield {"t": "prod", "edge": edge, "ptypes": pt, "meas": meas, "offset": off, "shape": list(sh), "absent": absent, "order": order, "ids": None, "prebound": None, "variant": var}


def _near_valid(case):
    """Non-trivial rule: consistent, or exactly one factor away from a consistent configuration."""
    if expected_valid(case):
        return True
    pt = case["ptypes"]
    if len(pt) != 2:
        return False
    # try repairing exactly one factor
    def ok(**kw):
        c = dict(case)
        c.update(kw)
        return expected_valid(c)

    if case["absent"]:
        return ok(absent=False)
    for m in MEAS:
        if ok(meas=m):
            return True
    for sh in SHAPES:
        if ok(shape=list(sh)):
            return True
    if case["edge"] == "landmark":
        for o in MEAS:
            if ok(offset=o):
                return True
    for k in KINDS:
        if ok(ptypes=[k, pt[1]]) or ok(ptypes=[pt[0], k]):
            return True
    return False


def run_chunk(chunk, tier, seed):
    typ, edge, pt = chunk
    acc = Acc(ID, signature)
    if typ == "prod":
        gen = _cases_prod(edge, pt)
    elif typ == "ids":
        gen = _cases_ids()
    elif typ == "dup":
        gen = _cases_dup()
    elif typ == "custom":
        gen = _cases_custom()
    elif typ == "perm":
        gen = _cases_perm()
    elif typ == "file":
        gen = _cases_file()
    else:
        gen = _cases_multi()
    for case in gen:
        acc.evals += 1
        acc.states += 1
        acc.traces += 1
        if case["t"] != "prod" or _near_valid(case):
            acc.nontrivial += 1
        msgs, outcome = _eval(case)
        acc.transitions += 1
        acc.cls(outcome)
        acc.outcome("%s/%s" % (case.get("edge", case["t"]), outcome))
        if case["t"] == "prod":
            acc.cls("order:" + case["order"])
            acc.cls(case["edge"])
            if case["absent"]:
                acc.cls("id_absent")
            if case.get("prebound"):
                acc.cls("prebound_stale")
            if case.get("variant"):
                acc.cls("variant:" + case["variant"])
        if msgs:
            acc.violation(case, msgs)
        if outcome == "accepted":
            acc.sample(case, 1)
    return acc


def eval_case(case):
    return _eval(case)[0]


def signature(case, msgs):
    return {"t": case.get("t"), "edge": case.get("edge"), "ptypes": "/".join(case.get("ptypes") or []), "expected": "valid" if case.get("t") == "prod" and expected_valid(case) else "other"}


def _build(case):
    """Returns (edges, vertices, named_vertices) for a product case."""
    pt = case["ptypes"]
    ids = case.get("ids") or list(range(10, 10 + len(pt)))
    byid = {}
    verts = []
    for k in range(len(pt)):
        if ids[k] not in byid:
            byid[ids[k]] = I.Vertex(ids[k], I.mk_pose(pt[k], _VAL[pt[k]]))
        verts.append(byid[ids[k]])
    named_ids = list(ids)
    if case["absent"]:
        named_ids[-1] = 424242
    var = case.get("variant")
    if var == "allfixed":
        for v in byid.values():
            v.fixed = True
    info = np.ones(tuple(case["shape"]), dtype=float) + (np.eye(*case["shape"]))
    if var == "info_zero":
        info = np.zeros(tuple(case["shape"]), dtype=float)
    elif var == "info_rank1":
        info = np.ones(tuple(case["shape"]), dtype=float)
    named_arg = named_ids
    if var == "tuple_ids":
        named_arg = tuple(named_ids)
    elif var == "npint_ids":
        named_arg = [np.int64(i) for i in named_ids]
    meas = _mk_meas(case["meas"], pt[-1] if case["edge"] == "landmark" else pt[0])
    if case["edge"] == "odometry":
        e = I.EdgeOdometry(named_arg, info, meas)
    else:
        off = _mk_meas(case["offset"], pt[0])
        e = I.EdgeLandmark(named_arg, info, meas, offset=off)
    if var in ("edge_deepcopy", "edge_pickle"):
        # the edge handed to Graph() is a standard-library copy of the edge the caller built
        import copy
        import pickle

        e = copy.deepcopy(e) if var == "edge_deepcopy" else pickle.loads(pickle.dumps(e))
    if case.get("prebound") == "stale":
        # the edge object arrives already bound to OTHER vertex objects (same ids, e.g. it was used in an earlier graph):
        # construction must re-bind it to the vertices of THIS graph
        e.vertices = [I.Vertex(i, I.mk_pose(pt[k], _VAL[pt[k]])) for k, i in enumerate(named_ids)]
    vl = []
    for v in verts:
        if not any(v is w for w in vl):
            vl.append(v)
    if case["order"] == "reversed":
        vl = vl[::-1]
    elif case["order"] == "distractor":
        vl = [I.Vertex(-77, I.mk_pose(pt[-1], [9.0 * x + 1 for x in _VAL[pt[-1]]][: len(_VAL[pt[-1]])]))] + vl[::-1]
    return e, vl, verts, named_ids


def _prelude():
    """history carried by every case: an inconsistent graph has been rejected (and the error caught) earlier in this process"""
    v = [I.Vertex(900, I.mk_pose("SE2", _VAL["SE2"])), I.Vertex(901, I.mk_pose("SE2", _VAL["SE2"]))]
    bad = I.EdgeOdometry([900, 901], np.eye(2), I.mk_pose("SE2", _VAL["SE2"]))
    try:
        I.Graph([bad], v)
    except Exception:
        pass


def _eval(case):
    try:
        _prelude()
        return _eval_unguarded(case)
    except Exception as ex:  # anything unexpected while judging a case is reported against the case, not as a harness crash
        import traceback

        return ["unexpected %s while evaluating the case: %s | %s" % (type(ex).__name__, ex, traceback.format_exc()[-400:])], "exception"


def _eval_unguarded(case):
    if case["t"] == "custom":
        return _eval_custom(case)
    if case["t"] == "multi":
        return _eval_multi(case)
    if case["t"] == "perm":
        return _eval_perm(case)
    if case["t"] == "file":
        return _eval_file(case)
    msgs = []
    e, vl, verts, named_ids = _build(case)
    try:
        g = I.Graph([e], vl)
        accepted = True
    except Exception:
        accepted = False
    want = expected_valid(case)
    judged = not (case["edge"] == "landmark" and case["offset"] == "None")
    if not judged and accepted:
        # the signature allows offset=None but gives it no meaning: accepting such an edge is only acceptable if it is usable
        try:
            c2 = float(g.calc_chi2())
            if c2 != c2:
                msgs.append("landmark edge with offset=None accepted but its chi2 is NaN")
        except Exception as ex:
            msgs.append("landmark edge with offset=None over %s ACCEPTED by Graph() but unusable: calc_chi2 raises %s" % (case["ptypes"], type(ex).__name__))
    if judged and accepted != want:
        msgs.append(
            "%s edge over %s, measurement %s, offset %s, information %s, id absent=%s, order=%s: %s but the documentation makes it %s"
            % (case["edge"], case["ptypes"], case["meas"], case["offset"], case["shape"], case["absent"], case["order"], "ACCEPTED" if accepted else "REJECTED", "consistent" if want else "inconsistent")
        )
    if accepted:
        ev = e.vertices
        if ev is None or len(ev) != len(named_ids):
            msgs.append("accepted edge has vertices=%r" % (ev,))
        else:
            for k, vid in enumerate(named_ids):
                if ev[k].id != vid:
                    msgs.append("edge.vertices[%d].id = %r but the edge names id %r" % (k, ev[k].id, vid))
                if ev[k] is not verts[k]:
                    msgs.append("edge.vertices[%d] is not the listed vertex object with id %r" % (k, vid))
        if want and judged:
            try:
                c2 = float(g.calc_chi2())
                if c2 != c2:
                    msgs.append("consistent edge accepted but chi2 is NaN")
            except Exception as ex:
                msgs.append("consistent edge accepted but calc_chi2 raised %s" % type(ex).__name__)
    return msgs, ("accepted" if accepted else "rejected")


# ------------------------------------------------------------------ thorough extras
def _cases_dup():
    """edges whose id list repeats an id: three ids with a repetition is still three vertices (inconsistent)."""
    for edge, pt3, meas, off, sh in (
        ("odometry", ["SE2", "SE2", "SE2"], "SE2", None, [3, 3]),
        ("odometry", ["R2", "R2", "R2"], "R2", None, [2, 2]),
        ("odometry", ["SE3", "SE3", "SE3"], "SE3", None, [6, 6]),
        ("landmark", ["SE2", "R2", "SE2"], "R2", "SE2", [2, 2]),
        ("landmark", ["SE3", "R3", "R3"], "R3", "SE3", [3, 3]),
    ):
        for pat in ([0, 1, 0], [0, 1, 1], [0, 0, 1]):
            for order in ORDERS:
                yield {"t": "prod", "edge": edge, "ptypes": [pt3[k] for k in pat], "meas": meas, "offset": off, "shape": sh, "absent": False, "order": order, "ids": [10 + k for k in pat], "dup": True}


def _cases_ids():
    pools = [[0, 1], [1, 0], [-5, 7], [1000, -5], [2**40, 2**63 - 1], [2**63 - 1, -(2**63)], [7, 7000000000000]]
    for edge, pt, meas, off, sh in (
        ("odometry", ["SE2", "SE2"], "SE2", None, [3, 3]),
        ("odometry", ["SE3", "SE3"], "SE3", None, [6, 6]),
        ("odometry", ["R2", "R2"], "R2", None, [2, 2]),
        ("landmark", ["SE2", "R2"], "R2", "SE2", [2, 2]),
        ("landmark", ["SE3", "R3"], "R3", "SE3", [3, 3]),
        ("landmark", ["R3", "R3"], "R3", "R3", [3, 3]),
    ):
        for ids in pools:
            for absent in (False, True):
                for order in ORDERS:
                    yield {"t": "prod", "edge": edge, "ptypes": pt, "meas": meas, "offset": off, "shape": sh, "absent": absent, "order": order, "ids": ids}


def _cases_custom():
    for nv in (1, 2, 3):
        for pt in itertools.product(KINDS, repeat=nv):
            for verdict in (True, False):
                for absent in (False, True):
                    for order in ORDERS:
                        yield {"t": "custom", "ptypes": list(pt), "verdict": verdict, "absent": absent, "order": order}


def _eval_custom(case):
    class _E(I.BaseEdge):
        verdict = True

        def is_valid(self):
            return self._is_valid() and self.verdict

        def calc_error(self):
            return np.zeros(2)

    pt = case["ptypes"]
    ids = list(range(3, 3 + len(pt)))
    verts = [I.Vertex(ids[k], I.mk_pose(pt[k], _VAL[pt[k]])) for k in range(len(pt))]
    named = list(ids)
    if case["absent"]:
        named[0] = 99
    e = _E(named, np.eye(2), np.zeros(2))
    e.verdict = case["verdict"]
    vl = list(verts)
    if case["order"] == "reversed":
        vl = vl[::-1]
    elif case["order"] == "distractor":
        vl = [I.Vertex(-1, I.mk_pose("R2", [5.0, 5.0]))] + vl[::-1]
    try:
        I.Graph([e], vl)
        accepted = True
    except Exception:
        accepted = False
    want = case["verdict"] and not case["absent"]
    msgs = []
    if accepted != want:
        msgs.append("custom %d-vertex edge with is_valid()=%s, id absent=%s: %s" % (len(pt), case["verdict"], case["absent"], "ACCEPTED" if accepted else "REJECTED"))
    if accepted:
        if e.vertices is None or len(e.vertices) != len(named):
            msgs.append("custom edge accepted but left unbound (vertices=%r)" % (e.vertices,))
        else:
            for k, vid in enumerate(named):
                if e.vertices[k] is not verts[k]:
                    msgs.append("custom edge vertices[%d] is not the vertex with id %r" % (k, vid))
    return msgs, ("accepted" if accepted else "rejected")


_MULTI_EDGES = [
    ("odometry", ["SE2", "SE2"], "SE2", None, [3, 3]),
    ("odometry", ["SE2", "SE2"], "SE2", None, [2, 2]),
    ("odometry", ["SE2", "SE2"], "R2", None, [3, 3]),
    ("landmark", ["SE2", "R2"], "R2", "SE2", [2, 2]),
    ("landmark", ["SE2", "R2"], "R2", "R2", [2, 2]),
    ("landmark", ["SE2", "R2"], "R3", "SE2", [3, 3]),
    ("landmark", ["R2", "R2"], "R2", "R2", [2, 2]),
]


def _cases_multi():
    """Every ordered pair of edges from a small consistent/inconsistent alphabet in ONE graph: a bad edge must be
    rejected wherever it stands and a good pair must be accepted and bound."""
    for i in range(len(_MULTI_EDGES)):
        for j in range(len(_MULTI_EDGES)):
            for order in ORDERS:
                yield {"t": "multi", "i": i, "j": j, "order": order}
                if _MULTI_EDGES[i][1] == _MULTI_EDGES[j][1]:
                    # both edges name the SAME two vertices (a repeated measurement / the same landmark seen twice)
                    yield {"t": "multi", "i": i, "j": j, "order": order, "same": True}


def _eval_multi(case):
    verts = {}
    edges = []
    wants = []
    bind = []
    vl = []
    for n, idx in enumerate((case["i"], case["j"])):
        edge, pt, meas, off, sh = _MULTI_EDGES[idx]
        c = {"edge": edge, "ptypes": pt, "meas": meas, "offset": off, "shape": sh, "absent": False}
        wants.append(expected_valid(c))
        if case.get("same") and n == 1:
            vs = bind[0]
        else:
            vs = [I.Vertex(100 * n + k, I.mk_pose(pt[k], _VAL[pt[k]])) for k in range(2)]
            vl += vs
        info = np.eye(sh[0])
        m = _mk_meas(meas, pt[-1])
        if edge == "odometry":
            e = I.EdgeOdometry([v.id for v in vs], info, m)
        else:
            e = I.EdgeLandmark([v.id for v in vs], info, m, offset=_mk_meas(off, pt[0]))
        edges.append(e)
        bind.append(vs)
    if case["order"] == "reversed":
        vl = vl[::-1]
    elif case["order"] == "distractor":
        vl = [vl[3], vl[0], vl[2], vl[1]] if len(vl) == 4 else [I.Vertex(-1, I.mk_pose("R2", [5.0, 5.0]))] + vl[::-1]
    try:
        I.Graph(edges, vl)
        accepted = True
    except Exception:
        accepted = False
    want = all(wants)
    msgs = []
    if accepted != want:
        msgs.append("graph with edges %r: %s but edge validity is %r" % ([_MULTI_EDGES[case["i"]], _MULTI_EDGES[case["j"]]], "ACCEPTED" if accepted else "REJECTED", wants))
    if accepted:
        for e, vs in zip(edges, bind):
            if e.vertices is None or len(e.vertices) != 2 or e.vertices[0] is not vs[0] or e.vertices[1] is not vs[1]:
                msgs.append("edge bound to the wrong vertex objects")
    return msgs, ("accepted" if accepted else "rejected")


# ------------------------------------------------------------------ vertex-list orders of larger graphs
_ID_SETS = {3: ([0, 1, 2], [0, 7, 2], [5, 0, 2]), 4: ([0, 1, 2, 3], [0, 9, 5, 3]), 5: ([0, 1, 2, 3, 4],)}


def _cases_perm():
    """3..5 vertices of DIFFERENT coordinates, ids 0..N-1 or sparse, listed in every order; edges name ids along a chain, its
    closure and a chord.  Every edge must end up bound to the vertex objects whose ids it names."""
    for n, idsets in sorted(_ID_SETS.items()):
        for ids in idsets:
            for perm in itertools.permutations(range(n)):
                for kind in ("SE2", "R3"):
                    yield {"t": "perm", "ids": list(ids), "perm": list(perm), "kind": kind}


def _eval_perm(case):
    ids, perm, kind = case["ids"], case["perm"], case["kind"]
    n = len(ids)
    verts = [I.Vertex(ids[k], I.mk_pose(kind, [x + 3.0 * k for x in _VAL[kind]][: len(_VAL[kind])])) for k in range(n)]
    byid = {v.id: v for v in verts}
    pairs = [(ids[k], ids[k + 1]) for k in range(n - 1)] + [(ids[n - 1], ids[0]), (ids[0], ids[n // 2])]
    c = I.COMPACT[kind]
    edges = [I.EdgeOdometry([a, b], np.eye(c), I.mk_pose(kind, _VAL[kind])) for a, b in pairs]
    vl = [verts[k] for k in perm]
    msgs = []
    try:
        I.Graph(edges, vl)
    except Exception as ex:
        return ["consistent %s graph, vertex ids listed as %r, edges %r: construction raised %s" % (kind, [v.id for v in vl], pairs, type(ex).__name__)], "rejected"
    for e, (a, b) in zip(edges, pairs):
        if e.vertices is None or len(e.vertices) != 2 or e.vertices[0] is not byid[a] or e.vertices[1] is not byid[b]:
            msgs.append("vertex ids listed as %r: edge naming ids (%r, %r) is bound to vertices with ids %r" % ([v.id for v in vl], a, b, None if e.vertices is None else [v.id for v in e.vertices]))
    return msgs, "accepted"


# ------------------------------------------------------------------ the same contract through the .g2o loader
_FILE_LINES = [
    "VERTEX_SE2 0 0.1 -0.2 0.3",
    "VERTEX_SE2 4 1.5 2.5 -3.0",
    "VERTEX_XY 2 4.0 -5.5",
    "EDGE_SE2 0 4 1.1 1.2 0.4 1.5 0.0 0.0 2.5 0.0 3.5",
    "EDGE_SE2_XY 4 2 0.7 -0.8 7.25 0.0 9.25",
]


def _cases_file():
    """every order of a 5-line file (edge records before / between / after the vertex records they name) x one id made unknown"""
    for perm in itertools.permutations(range(5)):
        for unknown in (None, 3, 4):
            yield {"t": "file", "perm": list(perm), "unknown": unknown}
    # ids beyond 2^53 (not representable as doubles): a neighbouring id is still another id
    for perm in ([0, 1, 2, 3, 4], [3, 4, 0, 1, 2], [4, 2, 3, 1, 0]):
        for unknown in (None, 3, 4):
            yield {"t": "file", "perm": list(perm), "unknown": unknown, "bigids": True}


def _eval_file(case):
    import os
    import shutil
    import tempfile

    lines = list(_FILE_LINES)
    big = {0: 2**53, 4: 2**53 + 2, 2: 2**60 + 1}
    if case.get("bigids"):
        lines = [
            "VERTEX_SE2 %d 0.1 -0.2 0.3" % big[0],
            "VERTEX_SE2 %d 1.5 2.5 -3.0" % big[4],
            "VERTEX_XY %d 4.0 -5.5" % big[2],
            "EDGE_SE2 %d %d 1.1 1.2 0.4 1.5 0.0 0.0 2.5 0.0 3.5" % (big[0], big[4] + (-1 if case["unknown"] == 3 else 0)),
            "EDGE_SE2_XY %d %d 0.7 -0.8 7.25 0.0 9.25" % (big[4], big[2] + (1 if case["unknown"] == 4 else 0)),
        ]
    elif case["unknown"] == 3:
        lines[3] = lines[3].replace("EDGE_SE2 0 4", "EDGE_SE2 0 44")
    elif case["unknown"] == 4:
        lines[4] = lines[4].replace("EDGE_SE2_XY 4 2", "EDGE_SE2_XY 4 22")
    text = "\n".join(lines[k] for k in case["perm"]) + "\n"
    tmp = tempfile.mkdtemp(prefix="vf-c18-")
    try:
        path = os.path.join(tmp, "f.g2o")
        with open(path, "w") as f:
            f.write(text)
        try:
            g = I.Graph.from_g2o(path)
            accepted = True
        except Exception:
            accepted = False
    finally:
        shutil.rmtree(tmp, ignore_errors=True)
    msgs = []
    if case["unknown"] is not None:
        if accepted:
            msgs.append("file with an edge naming an unknown vertex id was loaded without an error (%d edges in the graph); file:\n%s" % (len(I.graph_edges(g)), text))
        return msgs, ("accepted" if accepted else "rejected")
    if not accepted:
        return ["consistent file (edge records not after their vertex records) was rejected; file:\n" + text], "rejected"
    es = I.graph_edges(g)
    byid = {v.id: v for v in I.graph_vertices(g)}
    want = [k for k in case["perm"] if k >= 3]
    if len(es) != 2:
        msgs.append("consistent file: %d edges in the graph, the file has 2; file:\n%s" % (len(es), text))
    else:
        for e, k in zip(es, want):
            a, b = (0, 4) if k == 3 else (4, 2)
            if case.get("bigids"):
                a, b = big[a], big[b]
            if list(e.vertex_ids) != [a, b] or e.vertices is None or e.vertices[0] is not byid.get(a) or e.vertices[1] is not byid.get(b):
                msgs.append("edge of file line %d is not bound to the vertices with ids (%d, %d)" % (k, a, b))
    return msgs, "accepted"
