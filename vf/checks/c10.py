"""C10 - public pose Jacobian methods are exact derivatives (engine E1)."""
import numpy as np

from .. import alphabets as A
from .. import impl as I
from .. import deriv as D
from ..ref import geom as G
from ..runner import Acc

ID = "C10"
TOL = 1e-9

META = {
    "rule": "12 Jacobian methods x 4 pose types x every (self, other) pair / (self, point) pair / self of the pose alphabets; documented shape, "
    "J . jacobian_boxplus(operand)[:, d] vs 5-point derivative of op(operand [+] s e_d) for every tangent direction d, ambient entries for SE(2)/R^n, "
    "compact variants = first COMPACT rows; axis-aligned operands (one / all but one translation coordinate exactly 0); returned matrices stay unchanged while the methods are evaluated for other poses; non-trivial = Jacobian has an entry outside {0,+-1}",
    "assumptions": [
        "alphabet members only",
        "radial (off-sphere) derivative of the 7-column SE(3) Jacobians is not judged (documentation leaves the extension open)",
        "SE(2) angle components are unwrapped and quaternion blocks sign-aligned before differencing",
    ],
    "required_classes": ["map_scale_coordinates", "binary:SE2", "binary:SE3", "binary:R2", "binary:R3", "point:SE2", "point:SE3", "unary:SE3", "unary:SE2", "w_negative", "w_zero", "angle_seam"],
    "bounds": {"quick": "quick pose alphabets squared", "thorough": "thorough pose alphabets squared (SE3 259^2, SE2 175^2)"},
}

BINARY = [
    ("jacobian_self_oplus_other_wrt_self", "oplus", "self", False),
    ("jacobian_self_oplus_other_wrt_self_compact", "oplus", "self", True),
    ("jacobian_self_oplus_other_wrt_other", "oplus", "other", False),
    ("jacobian_self_oplus_other_wrt_other_compact", "oplus", "other", True),
    ("jacobian_self_ominus_other_wrt_self", "ominus", "self", False),
    ("jacobian_self_ominus_other_wrt_self_compact", "ominus", "self", True),
    ("jacobian_self_ominus_other_wrt_other", "ominus", "other", False),
    ("jacobian_self_ominus_other_wrt_other_compact", "ominus", "other", True),
]


def chunks(tier, seed):
    out = []
    for kind in I.KINDS:
        n = len(_alpha(kind, tier, seed))
        for i in range(n):
            out.append(("binary", kind, i))
        out.append(("point", kind, 0))
        out.append(("unary", kind, 0))
        out.append(("far", kind, 0))
    return out


def _alpha(kind, tier, seed):
    """shared pose alphabet + members within 1e-6 of the identity (defeat tolerance-based 'is identity' shortcuts)."""
    ps = A.poses(kind, tier, seed)
    if kind == "SE2":
        ps = ps + [[0.0, 0.0, 1e-7], [3e-7, -2e-7, -4e-7], [0.7, -1.3, 1e-7], [0.0, 0.0, 9e-9], [0.0, 0.0, A.PI / 2 - 9e-9], [0.0, 0.0, -A.PI / 2 + 7e-9]]
    elif kind == "SE3":
        tiny = A.unit([2e-7, -3e-7, 1e-7, 1.0])
        ps = ps + [[0.0, 0.0, 0.0] + tiny, [3e-7, -2e-7, 1e-7] + tiny, [0.7, -1.3, 2.1] + tiny, [0.0, 0.0, 0.0] + [-x for x in tiny]]
    else:
        ps = ps + [[3e-7, -2e-7, 1e-7][: len(ps[0])]]
    # axis-aligned members: exactly one / all but one translation coordinate is 0.0 (a forward or sideways step)
    if kind == "SE2":
        ps = ps + [[1.0, 0.0, 0.1], [0.0, -2.0, 0.3], [1.5, 0.0, 0.0]]
    elif kind == "SE3":
        q = A.unit([0.2, -0.4, 0.1, 0.8])
        ps = ps + [[1.0, 0.0, 0.0] + q, [0.0, -2.0, 0.5] + q, [0.0, 0.0, 3.0, 0.0, 0.0, 0.0, 1.0]]
    else:
        ps = ps + [[1.0, 0.0, 0.0][: len(ps[0])], [0.0, -2.0, 0.5][: len(ps[0])]]
    return ps


def _held(ck, kind, held):
    """results handed out earlier stay what they were while the same methods are evaluated for OTHER poses."""
    copies = [(n, r, np.array(r, dtype=float, copy=True)) for n, r in held]
    _prelude(kind)
    for n, r, c in copies:
        ck.nops += 1
        if np.asarray(r).shape != c.shape or not np.array_equal(np.asarray(r, dtype=float), c):
            ck.msgs.append("%s: a matrix returned earlier changed when the Jacobian methods were evaluated for other poses (shared result buffer)" % n)


def run_chunk(chunk, tier, seed):
    typ, kind, i = chunk
    acc = Acc(ID, signature)
    ps = _alpha(kind, tier, seed)
    if typ == "binary":
        for b in ps:
            _do(acc, {"t": "binary", "kind": kind, "a": ps[i], "b": b})
    elif typ == "far":
        # poses at map-scale coordinates (1e6): analytic Jacobians keep ~1e-16 relative accuracy there, so the comparison is made
        # at 1e-11 x scale (the 5-point oracle is good to ~1e-13 x scale); anything that differences positions is not
        d = G.DIM[kind]
        far = [1.0e6, -2.0e6, 5.0e5][:d]
        rots = [p[d:] for p in ps[:: max(1, len(ps) // 5)]][:5]
        n = 2 if kind in ("R2", "SE2") else 3
        for ra in rots:
            for rb in rots[:3]:
                _do(acc, {"t": "binary", "kind": kind, "a": far + list(ra), "b": [0.7, -1.3, 2.1][:d] + list(rb), "far": True})
                _do(acc, {"t": "binary", "kind": kind, "a": [0.7, -1.3, 2.1][:d] + list(ra), "b": far + list(rb), "far": True})
            _do(acc, {"t": "point", "kind": kind, "a": far + list(ra), "p": [3.0, -4.0, 5.0][:n], "far": True})
            _do(acc, {"t": "unary", "kind": kind, "a": far + list(ra), "far": True})
    elif typ == "point":
        n = 2 if kind in ("R2", "SE2") else 3
        for a in ps:
            for p in A.T(n, tier, seed) + [[3.0, -4.0, 5.0][:n], [1.0, 0.0, 0.0][:n], [0.0, -2.0, 0.5][:n]]:
                _do(acc, {"t": "point", "kind": kind, "a": a, "p": p})
    else:
        # forward and then backward through the alphabet: results must not depend on which pose was asked before
        for a in ps + ps[::-1]:
            _do(acc, {"t": "unary", "kind": kind, "a": a})
    return acc


def _do(acc, case):
    acc.evals += 1
    acc.states += 1
    acc.traces += 1
    kind = case["kind"]
    acc.cls("%s:%s" % (case["t"], kind))
    if case.get("far"):
        acc.cls("map_scale_coordinates")
    for key in ("a", "b"):
        c = case.get(key)
        if c is None:
            continue
        if kind == "SE3":
            if c[6] < 0:
                acc.cls("w_negative")
            if c[6] == 0:
                acc.cls("w_zero")
        if kind == "SE2" and abs(abs(c[2]) - A.PI) < 1e-5:
            acc.cls("angle_seam")
    msgs, ratio, nontriv, nops = _eval(case)
    acc.transitions += nops
    if nontriv:
        acc.nontrivial += 1
    acc.ratio(ratio, case if ratio > 1e-2 else None)
    if msgs:
        acc.violation(case, msgs)
    acc.sample(case, 1)


def eval_case(case):
    return _eval(case)[0]


def signature(case, msgs):
    return {"t": case.get("t"), "kind": case.get("kind")}


def _align_spec(kind):
    if kind == "SE2":
        return (2,), None
    if kind == "SE3":
        return (), slice(3, 7)
    return (), None


def _fd_along(op, operand, kind_res, d, dim):
    """5-point derivative of op(operand [+] s e_d) in ambient result coordinates."""
    ang, rot = _align_spec(kind_res)
    r0 = np.array(op(operand), dtype=float).ravel()

    def f(s):
        delta = np.zeros(dim)
        delta[d] = s
        return D.align_to(r0, np.array(op(operand + delta), dtype=float).ravel(), ang, rot)

    return D.fd5(f)


def _fd_ambient(op, kind, comps, k, kind_res):
    ang, rot = _align_spec(kind_res)
    r0 = np.array(op(I.mk_pose(kind, comps)), dtype=float).ravel()

    def f(s):
        c = list(comps)
        c[k] += s
        return D.align_to(r0, np.array(op(I.mk_pose(kind, c)), dtype=float).ravel(), ang, rot)

    return D.fd5(f)


class _Ck:
    def __init__(self, sc):
        self.msgs = []
        self.ratio = 0.0
        self.nontriv = False
        self.nops = 0
        self.sc = sc
        self.tol = TOL

    def shape(self, name, J, want):
        self.nops += 1
        J = np.asarray(J)
        if J.shape != tuple(want):
            self.msgs.append("%s returned shape %r, documented %r" % (name, J.shape, tuple(want)))
            return False
        if not np.all(np.isfinite(J)):
            self.msgs.append("%s not finite" % name)
            return False
        if np.any((np.abs(J) > 1e-12) & (np.abs(np.abs(J) - 1.0) > 1e-12)):
            self.nontriv = True
        return True

    def vec(self, what, got, exp):
        self.nops += 1
        d = float(np.max(np.abs(np.asarray(got) - np.asarray(exp))))
        r = d / (self.tol * self.sc)
        self.ratio = max(self.ratio, r)
        if not r <= 1.0:
            self.msgs.append("%s: Jacobian gives %r, 5-point derivative %r (|diff| %.3g > %.3g)" % (what, [float(x) for x in np.asarray(got).ravel()], [float(x) for x in np.asarray(exp).ravel()], d, self.tol * self.sc))


def _eval(case):
    try:
        return _eval_inner(case)
    except Exception as ex:
        import traceback

        return ["raised %s: %s | %s" % (type(ex).__name__, ex, traceback.format_exc()[-400:])], float("inf"), False, 1


def _prelude(kind):
    """history carried by every case: all Jacobian methods are first called on a fixed 'polluting' operand pair, so that data
    left behind by an earlier call (module-level scratch arrays, memoised blocks) would show up in the case itself."""
    comps = {"R2": [11.0, -7.0], "R3": [11.0, -7.0, 5.0], "SE2": [11.0, -7.0, 2.2], "SE3": [11.0, -7.0, 5.0] + A.unit([0.4, -0.5, 0.3, -0.7])}
    a = I.mk_pose(kind, comps[kind])
    b = I.mk_pose(kind, [x * 0.5 + 1.0 for x in comps[kind][: G.DIM[kind]]] + comps[kind][G.DIM[kind] :])
    pt = I.mk_pose(I.POINT_OF[kind], [3.0, -4.0, 5.0][: G.DIM[kind]])
    for name, _, _, _ in BINARY:
        getattr(a, name)(b)
    a.jacobian_boxplus()
    a.jacobian_inverse()
    a.jacobian_self_oplus_point_wrt_self(pt)
    a.jacobian_self_oplus_point_wrt_point(pt)


def _eval_inner(case):
    kind = case["kind"]
    _prelude(kind)
    amb, cpt = I.AMBIENT[kind], I.COMPACT[kind]
    a = I.mk_pose(kind, case["a"])
    a_st = I.comps(a)
    sc = 1.0 + sum(abs(x) for x in a_st[: G.DIM[kind]])
    t = case["t"]
    if t == "binary":
        b = I.mk_pose(kind, case["b"])
        b_st = I.comps(b)
        sc += sum(abs(x) for x in b_st[: G.DIM[kind]])
        ck = _Ck(sc)
        if case.get("far"):
            ck.tol = 1e-11
        full = {}
        for name, opn, wrt, compact in BINARY:
            Jraw = getattr(a, name)(b)
            if not isinstance(Jraw, np.ndarray):
                ck.msgs.append("%s returned a %s, documented np.ndarray" % (name, type(Jraw).__name__))
            J = np.asarray(Jraw, dtype=float)
            rows = cpt if compact else amb
            if not ck.shape(name, J, (rows, amb)):
                continue
            if not compact:
                full[(opn, wrt)] = J
            if opn == "oplus":
                op_self = lambda x: (x + b).to_array()
                op_other = lambda x: (a + x).to_array()
            else:
                op_self = lambda x: (x - b).to_array()
                op_other = lambda x: (a - x).to_array()
            operand, op = (a, op_self) if wrt == "self" else (b, op_other)
            Jb = np.asarray(operand.jacobian_boxplus(), dtype=float)
            for d in range(cpt):
                fd = _fd_along(op, operand, kind, d, cpt)[:rows]
                ck.vec("%s, tangent direction %d" % (name, d), J.dot(Jb[:, d]), fd)
            if kind != "SE3":
                oc = a_st if wrt == "self" else b_st
                for k in range(amb):
                    if wrt == "self":
                        opk = (lambda x: (x + b).to_array()) if opn == "oplus" else (lambda x: (x - b).to_array())
                    else:
                        opk = (lambda x: (a + x).to_array()) if opn == "oplus" else (lambda x: (a - x).to_array())
                    fd = _fd_ambient(opk, kind, oc, k, kind)[:rows]
                    ck.vec("%s, ambient column %d" % (name, k), J[:, k], fd)
        for name, opn, wrt, compact in BINARY:
            if compact and (opn, wrt) in full:
                Jc = np.asarray(getattr(a, name)(b), dtype=float)
                ck.nops += 1
                if Jc.shape == (cpt, amb) and float(np.max(np.abs(Jc - full[(opn, wrt)][:cpt]))) > 1e-12 * sc:
                    ck.msgs.append("%s is not the first %d rows of its full counterpart" % (name, cpt))
        if I.comps(a) != a_st or I.comps(b) != b_st:
            ck.msgs.append("a Jacobian method mutated an operand")
        # history: self is edited IN PLACE to another pose of the alphabet and asked again (no stale per-object intermediate results)
        if not ck.msgs:
            np.asarray(a)[...] = b_st
            for name, opn, wrt, compact in BINARY:
                J = np.asarray(getattr(a, name)(b), dtype=float)
                rows = cpt if compact else amb
                if J.shape != (rows, amb):
                    continue
                if opn == "oplus":
                    op = (lambda x: (x + b).to_array()) if wrt == "self" else (lambda x: (a + x).to_array())
                else:
                    op = (lambda x: (x - b).to_array()) if wrt == "self" else (lambda x: (a - x).to_array())
                operand = a if wrt == "self" else b
                Jb = np.asarray(operand.jacobian_boxplus(), dtype=float)
                for d in range(cpt):
                    fd = _fd_along(op, operand, kind, d, cpt)[:rows]
                    ck.vec("%s after an in-place edit of self, tangent direction %d" % (name, d), J.dot(Jb[:, d]), fd)
            Ji = np.asarray(a.jacobian_inverse(), dtype=float)
            Jb = np.asarray(a.jacobian_boxplus(), dtype=float)
            for d in range(cpt):
                fd = _fd_along(lambda x: x.inverse.to_array(), a, kind, d, cpt)
                ck.vec("jacobian_inverse after an in-place edit of self, tangent direction %d" % d, Ji.dot(Jb[:, d]), fd)
            np.asarray(a)[...] = a_st
        # a caller may edit a returned matrix in place (e.g. to weight it): later calls must not be affected
        for name, opn, wrt, compact in BINARY:
            J1 = getattr(a, name)(b)
            keep = np.array(J1, dtype=float, copy=True)
            try:
                J1 *= 0.0
                J1 += 7.0
            except Exception:
                pass
            J2 = np.asarray(getattr(a, name)(b), dtype=float)
            ck.nops += 1
            if J2.shape != keep.shape or not np.array_equal(J2, keep):
                ck.msgs.append("%s: editing a returned matrix in place changes what later calls return (shared result object)" % name)
        _held(ck, kind, [(name, getattr(a, name)(b)) for name, _, _, _ in BINARY])
        # operands that went through the standard library's copy / pickle are the same poses
        import copy as _copy
        import pickle as _pickle

        for how, mk in (("pickle round trip", lambda x: _pickle.loads(_pickle.dumps(x))), ("copy.deepcopy", _copy.deepcopy), ("copy.copy", _copy.copy)):
            try:
                a2, b2 = mk(a), mk(b)
            except Exception as ex:
                ck.msgs.append("%s of a pose raised %s" % (how, type(ex).__name__))
                continue
            for name, _, _, _ in BINARY:
                J0 = np.asarray(getattr(a, name)(b), dtype=float)
                J1 = np.asarray(getattr(a2, name)(b2), dtype=float)
                ck.nops += 1
                if J1.shape != J0.shape or not np.array_equal(J0, J1):
                    ck.msgs.append("%s gives another matrix for operands obtained by %s" % (name, how))
            for name in ("jacobian_boxplus", "jacobian_inverse"):
                if not np.array_equal(np.asarray(getattr(a, name)(), dtype=float), np.asarray(getattr(a2, name)(), dtype=float)):
                    ck.msgs.append("%s gives another matrix for a pose obtained by %s" % (name, how))
        # the documented parameter name works as a keyword and gives the same matrix
        for name, _, _, _ in BINARY:
            Jp = np.asarray(getattr(a, name)(b), dtype=float)
            try:
                Jk = np.asarray(getattr(a, name)(other=b), dtype=float)
            except TypeError as ex:
                ck.msgs.append("%s(other=...) raised TypeError: %s" % (name, ex))
                continue
            ck.nops += 1
            if Jk.shape != Jp.shape or not np.array_equal(Jk, Jp):
                ck.msgs.append("%s(other=...) differs from the positional call" % name)
        return ck.msgs, ck.ratio, ck.nontriv, ck.nops
    if t == "point":
        pk = I.POINT_OF[kind]
        p = I.mk_pose(pk, case["p"])
        pd = len(case["p"])
        sc += sum(abs(x) for x in case["p"])
        ck = _Ck(sc)
        if case.get("far"):
            ck.tol = 1e-11
        for name in ("jacobian_self_oplus_point_wrt_self", "jacobian_self_oplus_point_wrt_point"):
            Jraw = getattr(a, name)(p)
            if not isinstance(Jraw, np.ndarray):
                ck.msgs.append("%s returned a %s, documented np.ndarray" % (name, type(Jraw).__name__))
        J1 = np.asarray(a.jacobian_self_oplus_point_wrt_self(p), dtype=float)
        if ck.shape("jacobian_self_oplus_point_wrt_self", J1, (pd, amb)):
            Jb = np.asarray(a.jacobian_boxplus(), dtype=float)
            for d in range(cpt):
                fd = _fd_along(lambda x: (x + p).to_array(), a, pk, d, cpt)
                ck.vec("jacobian_self_oplus_point_wrt_self, tangent direction %d" % d, J1.dot(Jb[:, d]), fd)
            if kind != "SE3":
                for k in range(amb):
                    fd = _fd_ambient(lambda x: (x + p).to_array(), kind, a_st, k, pk)
                    ck.vec("jacobian_self_oplus_point_wrt_self, ambient column %d" % k, J1[:, k], fd)
        for name in ("jacobian_self_oplus_point_wrt_self", "jacobian_self_oplus_point_wrt_point"):
            J1 = getattr(a, name)(p)
            keep = np.array(J1, dtype=float, copy=True)
            try:
                J1 *= 0.0
                J1 += 7.0
            except Exception:
                pass
            if not np.array_equal(np.asarray(getattr(a, name)(p), dtype=float), keep):
                ck.msgs.append("%s: editing a returned matrix in place changes what later calls return (shared result object)" % name)
        # an integer-typed point array is the same point
        if all(float(x) == int(x) for x in case["p"]):
            pi_ = np.array([int(x) for x in case["p"]])
            for name in ("jacobian_self_oplus_point_wrt_self", "jacobian_self_oplus_point_wrt_point"):
                Jf = np.asarray(getattr(a, name)(p), dtype=float)
                try:
                    Ji_ = np.asarray(getattr(a, name)(pi_), dtype=float)
                except Exception as ex:
                    ck.msgs.append("%s raised %s for an integer-typed point array" % (name, type(ex).__name__))
                    continue
                ck.nops += 1
                if Ji_.shape != Jf.shape or float(np.max(np.abs(Ji_ - Jf))) > 1e-12 * sc:
                    ck.msgs.append("%s: integer-typed point array %r gives %r, float point gives %r" % (name, pi_.tolist(), Ji_.tolist(), Jf.tolist()))
        J2 = np.asarray(a.jacobian_self_oplus_point_wrt_point(p), dtype=float)
        if ck.shape("jacobian_self_oplus_point_wrt_point", J2, (pd, pd)):
            for k in range(pd):
                fd = _fd_ambient(lambda x: (a + x).to_array(), pk, list(case["p"]), k, pk)
                ck.vec("jacobian_self_oplus_point_wrt_point, column %d" % k, J2[:, k], fd)
        _held(ck, kind, [(name, getattr(a, name)(p)) for name in ("jacobian_self_oplus_point_wrt_self", "jacobian_self_oplus_point_wrt_point")])
        for name in ("jacobian_self_oplus_point_wrt_self", "jacobian_self_oplus_point_wrt_point"):
            Jp = np.asarray(getattr(a, name)(p), dtype=float)
            try:
                Jk = np.asarray(getattr(a, name)(point=p), dtype=float)
            except TypeError as ex:
                ck.msgs.append("%s(point=...) raised TypeError: %s" % (name, ex))
                continue
            ck.nops += 1
            if Jk.shape != Jp.shape or not np.array_equal(Jk, Jp):
                ck.msgs.append("%s(point=...) differs from the positional call" % name)
        return ck.msgs, ck.ratio, ck.nontriv, ck.nops
    # unary
    ck = _Ck(sc)
    if case.get("far"):
        ck.tol = 1e-11
    for name in ("jacobian_boxplus", "jacobian_inverse"):
        J1 = getattr(a, name)()
        keep = np.array(J1, dtype=float, copy=True)
        try:
            J1 *= 0.0
            J1 += 7.0
        except Exception:
            pass
        if not np.array_equal(np.asarray(getattr(a, name)(), dtype=float), keep):
            ck.msgs.append("%s: editing a returned matrix in place changes what later calls return (shared result object)" % name)
    for name in ("jacobian_boxplus", "jacobian_inverse"):
        Jraw = getattr(a, name)()
        if not isinstance(Jraw, np.ndarray):
            ck.msgs.append("%s returned a %s, documented np.ndarray" % (name, type(Jraw).__name__))
    Jb = np.asarray(a.jacobian_boxplus(), dtype=float)
    if ck.shape("jacobian_boxplus", Jb, (amb, cpt)):
        for d in range(cpt):
            fd = _fd_along(lambda x: x.to_array(), a, kind, d, cpt)
            ck.vec("jacobian_boxplus, direction %d" % d, Jb[:, d], fd)
    Ji = np.asarray(a.jacobian_inverse(), dtype=float)
    if ck.shape("jacobian_inverse", Ji, (amb, amb)):
        for d in range(cpt):
            fd = _fd_along(lambda x: x.inverse.to_array(), a, kind, d, cpt)
            ck.vec("jacobian_inverse, tangent direction %d" % d, Ji.dot(Jb[:, d]), fd)
        if kind != "SE3":
            for k in range(amb):
                fd = _fd_ambient(lambda x: x.inverse.to_array(), kind, a_st, k, kind)
                ck.vec("jacobian_inverse, ambient column %d" % k, Ji[:, k], fd)
    _held(ck, kind, [(name, getattr(a, name)()) for name in ("jacobian_boxplus", "jacobian_inverse")])
    return ck.msgs, ck.ratio, ck.nontriv, ck.nops
