"""C17 - equals is a sound, total tolerance comparison (engine E1)."""
import copy
import itertools
import math

import numpy as np

from .. import custom_edges as CE
from .. import impl as I
from ..runner import Acc

ID = "C17"

META = {
    "rule": "object pool (plain-data descriptors -> real objects): poses of all 4 types incl. cross-type members with equal numbers, vertices, odometry / landmark / custom edges "
    "(pose, ndarray and scalar estimates; with/without offset id), graphs of size 0..3 differing in size, type, order, a 9-pose trajectory with one pose near the origin and the others kilometres away, ids of 2e5 / 5e6 / 2^40 that differ by 1 or 2. (a) every ordered same-family pair x tol in {1e-6, 1e-3}: "
    "never raises, True iff descriptors are identical, False for every discrete or O(1) numeric difference; (b) every object x every single numeric component x perturbation "
    "tol*10^k*(norm used), k in -12..-2 => True, k in {2,3} => False, both signs, both directions; (c) every discrete difference. "
    "non-trivial = the two descriptors differ",
    "assumptions": ["pool of well-formed objects as stated; SE(2) angles of the pool stay away from the +-pi seam (equals is numeric on components)", "cross-family pairs (pose vs edge) are outside the property"],
    "required_classes": ["pair:pose", "pair:vertex", "pair:edge", "pair:graph", "cross_type", "perturb:sub", "perturb:super", "discrete"],
    "bounds": {"quick": "pool: 17 poses, 19 vertices, 42 edges, 20 graphs; all ordered pairs x 2 tolerances; perturbation exponents -12..-2, 2, 3", "thorough": "same + tol 1e-9 and 1e-1, relative and absolute perturbation variants"},
}

Q1 = [0.18257418583505536, -0.3651483716701107, 0.5477225575051661, 0.7302967433402214]
Q2 = [-0.5, 0.5, -0.5, -0.5]


def pose_pool():
    return [
        ["R2", [1.0, 2.0]],
        ["R2", [-0.5, 0.25]],
        ["R2", [0.0, 0.0]],
        ["R3", [1.0, 2.0, 3.0]],
        ["R3", [1.0, 2.0, 0.5]],
        ["R3", [0.0, 0.0, 0.0]],
        ["SE2", [1.0, 2.0, 3.0]],
        ["SE2", [1.0, 2.0, 0.5]],
        ["SE2", [0.0, 0.0, 0.0]],
        ["SE2", [-4.0, 250.0, -1.2]],
        ["SE3", [1.0, 2.0, 3.0] + Q1],
        ["SE3", [1.0, 2.0, 3.0] + Q2],
        ["SE3", [0.0, 0.0, 0.0, 0.0, 0.0, 0.0, 1.0]],
        ["SE3", [-40.0, 0.5, 7.0] + [-x for x in Q1]],
        # poses whose norm is far below 1 (the tolerance is relative to the norm, floored at tol - not at 1)
        ["R2", [5e-5, -3e-5]],
        ["SE2", [4e-5, 2e-5, -5e-5]],
        ["R3", [2e-5, -6e-5, 3e-5]],
    ]


def vertex_pool():
    ps = pose_pool()
    out = []
    for vid in (0, 5):
        for p in (ps[0], ps[3], ps[6], ps[7], ps[10], ps[11]):
            out.append({"id": vid, "pose": p})
    out.append({"id": -3, "pose": ps[6]})
    out.append({"id": 2**40, "pose": ps[6]})
    # large ids that differ by 1 (ids are integers: no tolerance applies to them)
    for vid in (200000, 200001, 5000000, 5000002, 2**40 + 1):
        out.append({"id": vid, "pose": ps[6]})
    return out


def _eye(n, s=1.0):
    return [[s if i == j else 0.0 for j in range(n)] for i in range(n)]


def _spd(n):
    return [[(2.0 + i if i == j else 0.3 / (1 + abs(i - j))) for j in range(n)] for i in range(n)]


def edge_pool():
    ps = pose_pool()
    return [
        {"k": "odo", "ids": [0, 1], "om": _eye(3), "est": ps[6]},
        {"k": "odo", "ids": [0, 1], "om": _spd(3), "est": ps[6]},
        {"k": "odo", "ids": [1, 0], "om": _eye(3), "est": ps[6]},
        {"k": "odo", "ids": [0, 2], "om": _eye(3), "est": ps[6]},
        {"k": "odo", "ids": [0, 1], "om": _eye(3), "est": ps[7]},
        {"k": "odo", "ids": [0, 1], "om": _eye(6), "est": ps[10]},
        {"k": "odo", "ids": [0, 1], "om": _spd(6), "est": ps[11]},
        {"k": "odo", "ids": [0, 1], "om": _eye(2), "est": ps[0]},
        {"k": "odo", "ids": [0, 1], "om": _eye(3), "est": ps[3]},
        {"k": "lm", "ids": [0, 1], "om": _eye(2), "est": ps[0], "off": ps[8], "off_id": None},
        {"k": "lm", "ids": [0, 1], "om": _eye(2), "est": ps[0], "off": ps[8], "off_id": 0},
        {"k": "lm", "ids": [0, 1], "om": _eye(2), "est": ps[0], "off": ps[8], "off_id": 3},
        {"k": "lm", "ids": [0, 1], "om": _eye(2), "est": ps[0], "off": ps[7], "off_id": 0},
        {"k": "lm", "ids": [0, 1], "om": _spd(2), "est": ps[1], "off": ps[7], "off_id": 0},
        {"k": "lm", "ids": [0, 1], "om": _eye(3), "est": ps[3], "off": ps[10], "off_id": 1},
        {"k": "lm", "ids": [0, 1], "om": _eye(3), "est": ps[3], "off": ps[11], "off_id": 1},
        {"k": "lm", "ids": [0, 1], "om": _eye(2), "est": ps[0], "off": ps[1], "off_id": None},
        {"k": "prior", "ids": [0], "om": _eye(2), "est": [0.5, -0.5]},
        {"k": "prior", "ids": [0], "om": _eye(3), "est": [0.5, -0.5, 0.1]},
        {"k": "prior", "ids": [1], "om": _eye(2), "est": [0.5, -0.5]},
        {"k": "tern", "ids": [0, 1, 2], "om": _eye(2), "est": [0.5, -0.5]},
        {"k": "subodo", "ids": [0, 1], "om": _eye(3), "est": ps[6]},  # a SUBCLASS of the odometry edge with the same data as entry 0: a type difference
        {"k": "sublm", "ids": [0, 1], "om": _eye(2), "est": ps[0], "off": ps[8], "off_id": 0},
        # one custom class, different numbers of constrained vertices (id lists that are prefixes of each other)
        {"k": "vararity", "ids": [0], "om": _eye(2), "est": [0.5, -0.5]},
        {"k": "vararity", "ids": [0, 1], "om": _eye(2), "est": [0.5, -0.5]},
        {"k": "vararity", "ids": [0, 1, 2], "om": _eye(2), "est": [0.5, -0.5]},
        {"k": "scalar", "ids": [0, 1], "om": _eye(1), "est": 1.5},
        {"k": "scalar", "ids": [0, 1], "om": _eye(1), "est": 0.0},
        # array / scalar estimates of equal NORM that are different measurements
        {"k": "prior", "ids": [0], "om": _eye(2), "est": [-0.5, 0.5]},
        {"k": "prior", "ids": [0], "om": _eye(2), "est": [0.5, 0.5]},
        {"k": "scalar", "ids": [0, 1], "om": _eye(1), "est": -1.5},
        # same numbers, one estimate a plain array and the other a pose object: different types
        {"k": "prior", "ids": [0], "om": _eye(2), "est": [1.0, 2.0]},
        {"k": "priorpose", "ids": [0], "om": _eye(2), "est": ps[0]},
        # large ids that differ by 1 or 2 (ids are integers: no tolerance applies to them)
        {"k": "odo", "ids": [200000, 200001], "om": _eye(3), "est": ps[6]},
        {"k": "odo", "ids": [200000, 200002], "om": _eye(3), "est": ps[6]},
        {"k": "odo", "ids": [200001, 200001], "om": _eye(3), "est": ps[6]},
        {"k": "odo", "ids": [5000000, 5000001], "om": _eye(3), "est": ps[6]},
        {"k": "odo", "ids": [5000000, 5000002], "om": _eye(3), "est": ps[6]},
        {"k": "lm", "ids": [200000, 200001], "om": _eye(2), "est": ps[0], "off": ps[8], "off_id": 0},
        {"k": "lm", "ids": [200000, 200002], "om": _eye(2), "est": ps[0], "off": ps[8], "off_id": 0},
        {"k": "lm", "ids": [0, 1], "om": _eye(2), "est": ps[0], "off": ps[8], "off_id": 200000},
        {"k": "lm", "ids": [0, 1], "om": _eye(2), "est": ps[0], "off": ps[8], "off_id": 200001},
    ]


def graph_pool():
    ps = pose_pool()
    se2 = lambda i, k: {"id": i, "pose": ps[6 + k]}
    r2 = lambda i, k: {"id": i, "pose": ps[k]}
    se3 = lambda i, k: {"id": i, "pose": ps[10 + k]}
    r3 = lambda i, k: {"id": i, "pose": ps[3 + k]}
    odo2 = {"k": "odo", "ids": [0, 1], "om": _eye(3), "est": ps[7]}
    odo2b = {"k": "odo", "ids": [1, 0], "om": _spd(3), "est": ps[6]}
    lm2 = {"k": "lm", "ids": [0, 2], "om": _eye(2), "est": ps[1], "off": ps[7], "off_id": 0}
    lm2b = {"k": "lm", "ids": [1, 2], "om": _eye(2), "est": ps[1], "off": ps[8], "off_id": 0}
    odo3 = {"k": "odo", "ids": [0, 1], "om": _eye(6), "est": ps[11]}
    lm3 = {"k": "lm", "ids": [0, 2], "om": _eye(3), "est": ps[4], "off": ps[10], "off_id": 1}
    pr = {"k": "prior", "ids": [0], "om": _eye(3), "est": [0.1, 0.2, 0.3]}
    return [
        {"v": [], "e": []},
        {"v": [se2(0, 0)], "e": []},
        {"v": [se2(0, 0), se2(1, 1)], "e": []},
        {"v": [se2(0, 0), se2(1, 1)], "e": [odo2]},
        {"v": [se2(1, 1), se2(0, 0)], "e": [odo2]},
        {"v": [se2(0, 0), se2(1, 1)], "e": [odo2b]},
        {"v": [se2(0, 0), se2(1, 1)], "e": [odo2, odo2b]},
        {"v": [se2(0, 0), se2(1, 1)], "e": [odo2b, odo2]},
        {"v": [se2(0, 0), se2(1, 1), r2(2, 0)], "e": [odo2, lm2]},
        {"v": [se2(0, 0), se2(1, 1), r2(2, 0)], "e": [lm2, odo2]},
        {"v": [se2(0, 0), se2(1, 1), r2(2, 0)], "e": [lm2b, lm2]},
        {"v": [se2(0, 0), se2(1, 1), r2(2, 1)], "e": [odo2, lm2]},
        {"v": [se3(0, 0), se3(1, 1)], "e": [odo3]},
        {"v": [se3(0, 0), se3(1, 1), r3(2, 0)], "e": [odo3, lm3]},
        {"v": [se3(0, 0), se3(1, 1), r3(2, 0)], "e": [lm3, odo3]},
        {"v": [se2(0, 0), se2(1, 1)], "e": [pr]},
        {"v": [se2(0, 0), se2(1, 1)], "e": [pr, odo2]},
        # a long trajectory: one pose near the origin, the others kilometres away (every pose is compared on its own scale)
        {"v": [{"id": 0, "pose": ["SE2", [0.5, 0.3, 0.1]]}] + [{"id": i, "pose": ["SE2", [1000.0 * i, -700.0 * i, 0.2 * i - 1.0]]} for i in range(1, 9)], "e": [odo2]},
        # graphs whose ids are large and differ by 1 / 2
        {"v": [se2(200000, 0), se2(200001, 1)], "e": [{"k": "odo", "ids": [200000, 200001], "om": _eye(3), "est": ps[7]}]},
        {"v": [se2(200000, 0), se2(200002, 1)], "e": [{"k": "odo", "ids": [200000, 200002], "om": _eye(3), "est": ps[7]}]},
    ]


class _ScalarEdge(CE._Custom):
    def calc_error(self):
        return np.array([float(np.linalg.norm((self.vertices[0].pose - self.vertices[1].pose).position)) - self.estimate])


def mk_pose(d):
    return I.mk_pose(d[0], d[1])


def mk_vertex(d):
    return I.Vertex(d["id"], mk_pose(d["pose"]))


class _VarArity(CE._Custom):
    def calc_error(self):
        return sum(v.pose.position[:2] for v in self.vertices) / len(self.vertices) - self.estimate


class _SubOdo(I.EdgeOdometry):
    pass


class _SubLm(I.EdgeLandmark):
    pass


def mk_edge(d):
    om = np.array(d["om"], dtype=float)
    k = d["k"]
    if k == "vararity":
        return _VarArity(list(d["ids"]), om, np.array(d["est"], dtype=float))
    if k == "subodo":
        return _SubOdo(list(d["ids"]), om, mk_pose(d["est"]))
    if k == "sublm":
        return _SubLm(list(d["ids"]), om, mk_pose(d["est"]), offset=mk_pose(d["off"]), offset_id=d.get("off_id"))
    if k == "odo":
        return I.EdgeOdometry(list(d["ids"]), om, mk_pose(d["est"]))
    if k == "lm":
        return I.EdgeLandmark(list(d["ids"]), om, mk_pose(d["est"]), offset=mk_pose(d["off"]), offset_id=d.get("off_id"))
    if k == "prior":
        return CE.PriorEdge(list(d["ids"]), om, np.array(d["est"], dtype=float))
    if k == "priorpose":
        return CE.PriorEdge(list(d["ids"]), om, mk_pose(d["est"]))
    if k == "tern":
        return CE.TernaryEdge(list(d["ids"]), om, np.array(d["est"], dtype=float))
    if k == "scalar":
        return _ScalarEdge(list(d["ids"]), om, float(d["est"]))
    raise ValueError(k)


def mk_graph(d):
    return I.Graph([mk_edge(e) for e in d["e"]], [mk_vertex(v) for v in d["v"]])


MK = {"pose": mk_pose, "vertex": mk_vertex, "edge": mk_edge, "graph": mk_graph}
POOLS = {"pose": pose_pool, "vertex": vertex_pool, "edge": edge_pool, "graph": graph_pool}


def tols(tier):
    return (1e-6, 1e-3) if tier == "quick" else (1e-6, 1e-3, 1e-9, 1e-1)


def chunks(tier, seed):
    out = []
    for fam in ("pose", "vertex", "edge", "graph"):
        n = len(POOLS[fam]())
        for i in range(n):
            out.append(("pair", fam, i))
            out.append(("perturb", fam, i))
    return out


def run_chunk(chunk, tier, seed):
    typ, fam, i = chunk
    acc = Acc(ID, signature)
    pool = POOLS[fam]()
    if typ == "pair":
        for j in range(len(pool)):
            for tol in tols(tier):
                _do(acc, {"t": "pair", "fam": fam, "x": pool[i], "y": pool[j], "tol": tol})
    else:
        x = pool[i]
        for path, val in numeric_slots(fam, x):
            for tol in tols(tier):
                for k in list(range(-12, -1)) + [2, 3]:
                    for sgn in (1.0, -1.0):
                        _do(acc, {"t": "perturb", "fam": fam, "x": x, "path": path, "k": k, "sgn": sgn, "tol": tol})
    return acc


# ----------------------------------------------------------------------------- numeric slots of a descriptor
def numeric_slots(fam, d):
    """yield (path, value) for every single numeric component; path is a list of keys into the descriptor."""
    out = []

    def pose(p, pre):
        for c in range(len(p[1])):
            out.append((pre + [1, c], p[1][c]))

    def edge(e, pre):
        for r in range(len(e["om"])):
            for c in range(len(e["om"][r])):
                out.append((pre + ["om", r, c], e["om"][r][c]))
        if isinstance(e["est"], list) and e["est"] and isinstance(e["est"][0], str):
            pose(e["est"], pre + ["est"])
        elif isinstance(e["est"], list):
            for c in range(len(e["est"])):
                out.append((pre + ["est", c], e["est"][c]))
        else:
            out.append((pre + ["est"], e["est"]))
        if "off" in e:
            pose(e["off"], pre + ["off"])

    if fam == "pose":
        pose(d, [])
    elif fam == "vertex":
        pose(d["pose"], ["pose"])
    elif fam == "edge":
        edge(d, [])
    else:
        for vi, v in enumerate(d["v"]):
            pose(v["pose"], ["v", vi, "pose"])
        for ei, e in enumerate(d["e"]):
            edge(e, ["e", ei])
    return out


def _get(d, path):
    for k in path:
        d = d[k]
    return d


def _set(d, path, val):
    d = d
    for k in path[:-1]:
        d = d[k]
    d[path[-1]] = val


def _block_norm(fam, d, path):
    """the norm the comparison uses for the block that contains the slot."""
    blk = _get(d, path[:-1]) if not (path and path[-1] == "est") else None
    if path[-1] == "est":
        return abs(_get(d, path))
    if "om" in path:
        om = _get(d, path[: path.index("om") + 1])
        return math.sqrt(sum(x * x for r in om for x in r))
    return math.sqrt(sum(x * x for x in blk))


def _numeric_gap(fam, dx, dy, tol):
    """None if the descriptors differ discretely (type / id / size / order / structure); else the largest block-wise
    |difference| / max(|block of x|, |block of y|, tol) in units of tol."""
    sx, sy = numeric_slots(fam, dx), numeric_slots(fam, dy)
    if [p for p, _ in sx] != [p for p, _ in sy]:
        return None
    bx, by = copy.deepcopy(dx), copy.deepcopy(dy)
    for p, _ in sx:
        _set(bx, p, 0.0)
        _set(by, p, 0.0)
    if bx != by:
        return None
    blocks = {}
    for (p, a), (_, b) in zip(sx, sy):
        key = tuple(str(k) for k in (p[: p.index("om") + 1] if "om" in p else p[:-1]))
        d = blocks.setdefault(key, [0.0, 0.0, 0.0])
        d[0] += (a - b) ** 2
        d[1] += a * a
        d[2] += b * b
    worst = 0.0
    for d2, nx, ny in blocks.values():
        worst = max(worst, math.sqrt(d2) / max(math.sqrt(nx), math.sqrt(ny), tol))
    return worst / tol


def _do(acc, case):
    acc.evals += 1
    acc.states += 1
    acc.traces += 1
    msgs, info = _eval(case)
    acc.transitions += info.get("calls", 1)
    for c in info.get("classes", ()):
        acc.cls(c)
    acc.outcome(info.get("outcome"))
    if info.get("nontrivial"):
        acc.nontrivial += 1
    if msgs:
        acc.violation(case, msgs)
    acc.sample(case, 1)


def eval_case(case):
    return _eval(case)[0]


def _type_tag(fam, d):
    if fam == "pose":
        return d[0]
    if fam == "vertex":
        return d["pose"][0]
    if fam == "edge":
        return d["k"]
    return "graph"


def signature(case, msgs):
    sig = {"t": case["t"], "fam": case["fam"], "raised": any("raised" in m for m in msgs)}
    if case["t"] == "pair":
        sig["types"] = "%s/%s" % (_type_tag(case["fam"], case["x"]), _type_tag(case["fam"], case["y"]))
    return sig


def X_digest(o):
    from .. import explore as X

    return X.digest(o)


def _call(x, y, tol):
    try:
        r = x.equals(y, tol)
        return ("T" if bool(r) else "F"), None
    except Exception as ex:
        return "X", "%s: %s" % (type(ex).__name__, ex)


def _eval(case):
    try:
        return _eval_unguarded(case)
    except Exception as ex:
        import traceback

        return ["unexpected %s while evaluating the case: %s | %s" % (type(ex).__name__, ex, traceback.format_exc()[-400:])], {"classes": [], "outcome": "exception", "calls": 0, "nontrivial": False}


def _eval_unguarded(case):
    fam = case["fam"]
    mk = MK[fam]
    msgs = []
    tol = case["tol"]
    if case["t"] == "pair":
        dx, dy = case["x"], case["y"]
        same = dx == dy
        x, y = mk(dx), mk(dy)
        r, err = _call(x, y, tol)
        classes = ["pair:" + fam]
        if not same:
            classes.append("discrete")
        if fam == "pose" and dx[0] != dy[0]:
            classes.append("cross_type")
        gap = None if same else _numeric_gap(fam, dx, dy, tol)
        if r == "X":
            msgs.append("%s.equals raised %s for the well-formed pair %r vs %r" % (fam, err, dx, dy))
        elif same and r != "T":
            msgs.append("%s.equals(copy) returned False for %r (tol %g)" % (fam, dx, tol))
        elif not same and gap is not None and gap < 100.0:
            pass  # the two pool members differ only numerically and by less than 100 x tol (relative to the norm used): not judged
        elif not same and r != "F":
            msgs.append("%s.equals returned True for different objects %r vs %r (tol %g)" % (fam, dx, dy, tol))
        # an object and its deep copy / its own copy()
        calls = 1
        if same:
            x2 = copy.deepcopy(x)
            r2, err2 = _call(x, x2, tol)
            calls += 1
            if r2 != "T":
                msgs.append("%s.equals(deepcopy) -> %s %s" % (fam, r2, err2 or ""))
            if fam == "pose":
                xc = x.copy()
                for a_, b_, w in ((x, xc, "p.equals(p.copy())"), (xc, x, "p.copy().equals(p)")):
                    r3, err3 = _call(a_, b_, tol)
                    calls += 1
                    if r3 != "T":
                        msgs.append("%s -> %s %s for %r" % (w, r3, err3 or "", dx))
            if fam == "vertex":
                xv = I.Vertex(x.id, x.pose.copy())
                r3, err3 = _call(x, xv, tol)
                calls += 1
                if r3 != "T":
                    msgs.append("vertex.equals(vertex rebuilt from pose.copy()) -> %s %s for %r" % (r3, err3 or "", dx))
                # the same vertex once it sits in a graph (at list position 2) vs a fresh copy, and vs its twin at another position of another graph
                filler = [I.Vertex(-900 - j, I.mk_pose("R2", [0.0, 1.0 * j])) for j in range(3)]
                xg = I.Vertex(x.id, x.pose.copy())
                I.Graph([], filler[:2] + [xg])
                xh = I.Vertex(x.id, x.pose.copy())
                I.Graph([], [xh] + filler[2:])
                for a_, b_, w in ((xg, xv, "vertex in a graph vs a fresh copy"), (xv, xg, "fresh copy vs vertex in a graph"), (xg, xh, "the same vertex at different positions of two graphs")):
                    r4, err4 = _call(a_, b_, tol)
                    calls += 1
                    if r4 != "T":
                        msgs.append("%s: equals -> %s %s for %r" % (w, r4, err4 or "", dx))
        return msgs, {"classes": classes, "outcome": "pair:%s:%s" % (fam, r), "calls": calls, "nontrivial": not same}
    # single-component perturbation
    dx = case["x"]
    dy = copy.deepcopy(dx)
    path = case["path"]
    k = case["k"]
    nrm = _block_norm(fam, dx, path)
    delta = case["sgn"] * tol * (10.0 ** k) * max(nrm, tol)
    v0 = _get(dx, path)
    holder = _get(dx, path[:-2]) if len(path) >= 2 else None
    if isinstance(holder, list) and len(holder) == 2 and holder[0] == "SE2" and path[-1] == 2 and abs(delta) > 1.0:
        # an SE(2) angle moved by more than a radian may wrap back onto itself: not a "component far above tolerance"
        return [], {"classes": [], "outcome": "perturb:angle-wrap-excluded", "calls": 0, "nontrivial": False}
    _set(dy, path, v0 + delta)
    if _get(dy, path) == v0:
        return [], {"classes": [], "outcome": "perturb:absorbed", "calls": 0, "nontrivial": False}
    x, y = mk(dx), mk(dy)
    if k > 0 and X_digest(x) == X_digest(y):
        # the constructor absorbed the perturbation (an SE(2) angle changed by less than an ulp of pi is wrapped back onto itself)
        return [], {"classes": [], "outcome": "perturb:absorbed", "calls": 0, "nontrivial": False}
    if fam == "graph" and (case["k"] + (1 if case["sgn"] > 0 else 0)) % 2 == 0:
        # both graphs have been evaluated before they are compared (whatever they cache is not part of equality)
        for g_ in (x, y):
            try:
                with np.errstate(all="ignore"):
                    g_.calc_chi2()
            except Exception:
                pass
    if fam == "edge":
        # the edges were compared once while their information had another scale (re-weighted since)
        for e_ in (x, y):
            keep = e_.information
            e_.information = 1e4 * np.asarray(keep, dtype=float)
            _call(e_, e_, tol)
            e_.information = keep
    r1, e1 = _call(x, y, tol)
    r2, e2 = _call(y, x, tol)
    want = "T" if k < 0 else "F"
    classes = ["perturb:sub" if k < 0 else "perturb:super"]
    for r, e, d in ((r1, e1, "x.equals(y)"), (r2, e2, "y.equals(x)")):
        if r == "X":
            msgs.append("%s raised %s" % (d, e))
        elif r != want:
            msgs.append("%s %s = %s for a perturbation of %g x tol (component %r of %r changed by %.3g, tol %g)" % (fam, d, r, 10.0 ** k, path, dx, delta, tol))
    return msgs, {"classes": classes, "outcome": "perturb:%s%s" % (r1, r2), "calls": 2, "nontrivial": True}
