"""C12 - the optimization report is faithful and the stopping rule is the documented one.
E3: TLC model of the loop + conformance replay of EVERY behaviour; E2/E1: direct exploration on real graphs
(orbit oracle, stop-rule prediction, verbose, every call splitting)."""
import contextlib
import io
import itertools
import math

import numpy as np

from .. import alphabets as A
from .. import custom_edges as CE
from .. import families as F
from .. import gbuild as GB
from .. import impl as I
from .. import slamfam as SF
from .. import tlc as TLC
from ..ref import stoprule as SR
from ..runner import Acc

ID = "C12"

CHI2S = [1, 2, 5, 10, 17]
TOLS = [(0, 1), (1, 1000), (45, 100), (55, 100), (75, 100), (95, 100), (2, 1)]

META = {
    "rule": "(model) TLC explores OptimizeLoop.tla (loop of Graph.optimize over an environment-chosen chi2 sequence from {1,2,5,10,17}, tolerances {0, 1/1000, .45, .55, .75, .95, 2}, "
    "MaxIter 1..3 quick / 1..5 (+6 with 3 tolerances) thorough) and checks the invariant Rule (= the documented stopping rule and bookkeeping) on every reachable state; the dumped state "
    "graph is parsed and EVERY terminal state (= one complete behaviour, hist is a state variable so the graph is a tree) is replayed on the real Graph.optimize through a scripted unary edge "
    "(error [a_k, -1], J = I, k = round(y)) and compared field by field. (direct) graphs = shape-family slice + SLAM families + singular / diverging graphs x tol in {0,1e-12,1e-8,1e-4,1e-1} "
    "x max_iter 1..8 x verbose: report vs the Gauss-Newton orbit obtained by single-step runs and vs the stop-rule prediction; (edit) a converging first call, then an external change (pose re-bound / edited in place / fixed flag set), then the judged call vs the orbit of a fresh graph in the edited state; (split) every composition k1+...+km = n, n<=6, with tol=0 "
    "and with tol>0. non-trivial = behaviour with at least 2 chi2 values / run with at least one update",
    "assumptions": ["TLC 1.8.0 trusted; if tlc is missing the same transition relation (ref/stoprule.enumerate_model) is enumerated and evidence says tlc_used=false", "eps in the denominator and NaN chi2 are outside the TLA+ model; they are covered by the direct enumeration with IEEE semantics"],
    "required_classes": ["scripted_extreme_sequences", "edit:rebind", "edit:inplace", "edit:flag", "model:early_stop", "model:limit_converged", "model:limit_not_converged", "model:chi2_increase", "model:equal_chi2", "direct:converged", "direct:limit", "direct:nan_chi2", "direct:verbose", "split:tol0", "split:tolpos", "stop_at_first_iteration_possible"],
    "bounds": {"quick": "TLC MaxIter 1..3 x 7 tolerances (5425 behaviours); direct max_iter 1..6; splits n<=5", "thorough": "TLC MaxIter 1..5 x 7 tolerances + MaxIter 6 x 3 tolerances; direct max_iter 1..8 (small graphs 1..30); splits n<=6"},
}


# ----------------------------------------------------------------------------------------------- scripted edge
class ScriptedEdge(CE._Custom):
    """error = [a_k, -1] with k = round(y of the vertex): every Gauss-Newton step moves y by exactly +1, so the position
    in the script is a function of the mathematical state (not of call counts or object identity)."""

    script = ()

    def calc_error(self):
        k = int(round(float(self.vertices[0].pose[1])))
        a = self.script[min(max(k, 0), len(self.script) - 1)]
        return np.array([a, -1.0])

    def calc_jacobians(self):
        return [np.eye(2)]


# chi2 sequences outside the model's small value alphabet: explosive growth, collapse to denormals, plateaus at huge / tiny scales
SCRIPTS = {
    "explode": [1.0 + 10.0 ** (7 * k) for k in range(12)],
    "explode_then_settle": [2.0, 1e9, 1e17, 1e17, 1e17, 5.0, 5.0, 5.0, 5.0, 5.0, 5.0, 5.0],
    "collapse": [1.0 + 10.0 ** (-3 * k) for k in range(12)],
    "huge_plateau": [1e12, 1e12 - 1e3, 1e12 - 1e3 - 1.0, 1e12 - 2e3] + [1e12 - 2e3] * 8,
    "slow": [1.0 + 100.0 * 0.9 ** k for k in range(12)],
}


def replay_script(case):
    """a scripted chi2 sequence through the real optimizer vs the documented rule (vf/ref/stoprule.py)"""
    msgs = []
    hist = SCRIPTS[case["script"]]
    a = [math.sqrt(h - 1.0) for h in hist]
    v = I.Vertex(0, I.mk_pose("R2", [0.0, 0.0]))
    e = ScriptedEdge([0], np.eye(2), np.zeros(2))
    e.script = a
    g = I.Graph([e], [v])
    chi = lambda t: float(a[min(t, len(a) - 1)] ** 2 + 1.0)
    exp = SR.predict(chi, case["tol"], case["max_iter"])
    r = GB.optimize(g, tol=case["tol"], max_iter=case["max_iter"], fix_first_pose=False, verbose=case["verbose"])
    got = {"converged": bool(r.converged), "num_iterations": r.num_iterations, "n_results": len(r.iteration_results), "updates": int(round(float(v.pose[1])))}
    for k in got:
        if got[k] != exp[k]:
            msgs.append("script %s, tol %g, max_iter %d, verbose %s: %s = %r, the documented rule gives %r" % (case["script"], case["tol"], case["max_iter"], case["verbose"], k, got[k], exp[k]))
    if not msgs:
        if not _same(float(r.initial_chi2), exp["initial"]) or not _same(float(r.final_chi2), exp["final"]):
            msgs.append("script %s: initial/final chi2 %r / %r, expected %r / %r" % (case["script"], r.initial_chi2, r.final_chi2, exp["initial"], exp["final"]))
        chis = [it.chi2 for it in r.iteration_results]
        if len(chis) != len(exp["chi2s"]) or any((c is None) != (x is None) or (c is not None and not _same(float(c), x)) for c, x in zip(chis, exp["chi2s"])):
            msgs.append("script %s: iteration chi2 values %r, expected %r" % (case["script"], chis, exp["chi2s"]))
        rds = [it.rel_diff for it in r.iteration_results]
        if len(rds) != len(exp["rel_diffs"]) or any((c is None) != (x is None) or (c is not None and abs(float(c) - x) > 1e-9 * (1.0 + abs(x))) for c, x in zip(rds, exp["rel_diffs"])):
            msgs.append("script %s: iteration rel_diff values %r, expected %r" % (case["script"], rds, exp["rel_diffs"]))
    return msgs


def replay_behaviour(b, max_iter):
    """b: terminal state of the model.  Returns list of messages."""
    msgs = []
    hist = b["hist"]
    a = [math.sqrt(h - 1) for h in hist]
    v = I.Vertex(0, I.mk_pose("R2", [0.0, 0.0]))
    e = ScriptedEdge([0], np.eye(2), np.zeros(2))
    e.script = a
    g = I.Graph([e], [v])
    tol = b["tol"][0] / b["tol"][1]
    r = GB.optimize(g, tol=tol, max_iter=max_iter, fix_first_pose=False)
    y = float(v.pose[1])
    exp = {
        "converged": b["converged"],
        "num_iterations": b["numIter"],
        "len(iteration_results)": b["nResults"],
        "initial_chi2": float(hist[0]),
        "final_chi2": float(hist[-1]),
        "updates applied (final y)": float(b["updates"]),
    }
    got = {
        "converged": bool(r.converged),
        "num_iterations": r.num_iterations,
        "len(iteration_results)": len(r.iteration_results),
        "initial_chi2": float(r.initial_chi2),
        "final_chi2": float(r.final_chi2),
        "updates applied (final y)": y,
    }
    for k in exp:
        if exp[k] != got[k]:
            msgs.append("%s = %r, model says %r" % (k, got[k], exp[k]))
    # per-iteration chi2 / rel_diff / completeness pattern
    chis = [it.chi2 for it in r.iteration_results]
    exp_ch = [float(h) for h in hist[1:]]
    if b["converged"] and b["numIter"] < max_iter:
        exp_ch = exp_ch + [None]
    exp_ch = exp_ch[: b["nResults"]] if len(exp_ch) > b["nResults"] else exp_ch
    if chis != exp_ch:
        msgs.append("iteration chi2 values %r, model says %r" % (chis, exp_ch))
    for j, it in enumerate(r.iteration_results):
        if it.chi2 is not None and j + 1 < len(hist):
            rd = -SR.rel_decrease(float(hist[j]), float(hist[j + 1]))
            if it.rel_diff is None or abs(it.rel_diff - rd) > 1e-12:
                msgs.append("iteration %d rel_diff %r, expected %r" % (j + 1, it.rel_diff, rd))
    comp = [it.is_complete_iteration() for it in r.iteration_results]
    exp_comp = [True] * b["updates"] + [False] * (b["nResults"] - b["updates"])
    if comp != exp_comp:
        msgs.append("is_complete_iteration pattern %r, expected %r" % (comp, exp_comp))
    c2 = float(g.calc_chi2())
    if c2 != float(r.final_chi2):
        msgs.append("final_chi2 %r differs from calc_chi2() of the returned graph %r" % (r.final_chi2, c2))
    return msgs


# ----------------------------------------------------------------------------------------------- direct exploration
class PenaltyOdometry(I.EdgeOdometry):
    """a user subclass that overrides the public calc_chi2 hook (a constant penalty on top of e^T Omega e): whatever the optimizer
    reports as chi2 has to be what Graph.calc_chi2() says for the same state"""

    def calc_chi2(self):
        return super().calc_chi2() + 0.75


def _build(spec):
    g, verts, edges = GB.build({k: v for k, v in spec.items() if k != "penalty"})
    if spec.get("penalty"):
        for e in edges:
            if type(e) is I.EdgeOdometry:
                e.__class__ = PenaltyOdometry
    return g, verts, edges


def direct_graphs(tier, seed):
    out = []
    # shape-family slice: spanning 2-edge multisets, first vertex fixed
    for ti, types in enumerate(F.type_multisets(3)):
        cands = F.candidate_edges(types, seed)
        for ms in F.edge_multisets(len(cands), 2):
            t = set()
            for k in ms:
                t.update(cands[k]["ids"])
            if len(ms) == 2 and t == {0, 1, 2}:
                out.append(("shape", {"types": types, "ms": ms, "fixed": [True, False, False]}))
                # two fixed vertices (possibly joined by an edge whose constant residual must stay in every reported chi2)
                out.append(("shape", {"types": types, "ms": ms + [ms[0]], "fixed": [True, True, False]}))
                break
    for kind in ("SE2", "SE3"):
        for fam in SF.FAMILIES[kind]:
            for n in ((3, 6) if tier == "quick" else (3, 6, 12)):
                for nz, amp in (("zero", 0.0), ("sin", 0.02)):
                    out.append(("slam", {"kind": kind, "fam": fam, "n": n, "noise": nz, "nz": amp}))
    out.append(("singular", {"kind": "SE2"}))
    out.append(("singular", {"kind": "R3"}))
    out.append(("diverging", {"kind": "SE2"}))
    out.append(("diverging", {"kind": "SE3"}))
    out.append(("truth", {"kind": "R2"}))
    out.append(("slam", {"kind": "SE2", "fam": "ring", "n": 3, "noise": "sin", "nz": 0.02, "penalty": True}))
    out.append(("slam", {"kind": "SE3", "fam": "helix", "n": 3, "noise": "sin", "nz": 0.02, "penalty": True}))
    return out


def direct_spec(gd, seed):
    typ, d = gd
    if typ == "shape":
        return F.make_spec(d["types"], seed, d["ms"], d.get("fixed", [True, False, False]), None, None, None)
    if typ == "slam":
        dt, dr = (0.3, 0.2) if d["kind"] == "SE2" else (0.1, 0.05)
        sp = SF.make(d["fam"], d["kind"], d["n"], "alt", d["noise"], dt, dr, d["nz"], seed)[0]
        if d.get("penalty"):
            sp["penalty"] = True
        return sp
    if typ == "singular":
        k = d["kind"]
        c = I.COMPACT[k]
        return {
            "vertices": [{"id": 0, "kind": k, "pose": F.vertex_pose(k, 0, seed), "fixed": False}, {"id": 1, "kind": k, "pose": F.vertex_pose(k, 1, seed), "fixed": False}],
            "edges": [{"type": "odo", "ids": [0, 1], "z": F._meas(k, 0, seed), "om": A.spd(c, seed, "sg")}],
        }  # no fixed vertex: singular system -> NaN chi2
    if typ == "diverging":
        k = d["kind"]
        spec = SF.make("ring", k, 6, "alt", "sin", 3.0, 1.5 if k == "SE2" else 0.45, 0.3, seed)[0]
        return spec
    if typ == "truth":
        return {
            "vertices": [{"id": 0, "kind": "R2", "pose": [1.0, 2.0], "fixed": True}, {"id": 1, "kind": "R2", "pose": [2.0, 4.0], "fixed": False}],
            "edges": [{"type": "odo", "ids": [0, 1], "z": [1.0, 2.0], "om": [[1.0, 0.0], [0.0, 1.0]]}],
        }  # starts at the optimum: chi2 = 0 exactly
    raise ValueError(typ)


DIRECT_TOLS = [0.0, 1e-12, 1e-8, 1e-4, 1e-1]


def compositions(n):
    for mask in range(2 ** (n - 1)):
        parts = []
        cur = 1
        for b in range(n - 1):
            if (mask >> b) & 1:
                parts.append(cur)
                cur = 1
            else:
                cur += 1
        parts.append(cur)
        yield parts


def orbit(spec, steps):
    """states and chi2 of the Gauss-Newton orbit O_t, t = 0..steps, by single-iteration runs on a fresh graph."""
    g, verts, edges = _build(spec)
    snaps = [GB.snapshot(verts)]
    with np.errstate(all="ignore"):
        chis = [float(g.calc_chi2())]
    for _ in range(steps):
        GB.optimize(g, tol=0.0, max_iter=1, fix_first_pose=False)
        snaps.append(GB.snapshot(verts))
        with np.errstate(all="ignore"):
            chis.append(float(g.calc_chi2()))
    return snaps, chis


def _same(a, b, rel=1e-12):
    if a is None or b is None:
        return a is b
    if isinstance(a, float) and isinstance(b, float) and math.isnan(a) and math.isnan(b):
        return True
    if a == b:
        return True
    try:
        return abs(a - b) <= rel * max(abs(a), abs(b))
    except TypeError:
        return False


def _snap_equal(s1, s2, rel=1e-12):
    for a, b in zip(s1, s2):
        for x, y in zip(a[2], b[2]):
            if not _same(float(x), float(y), rel):
                return False
    return True


def reported_hist(r):
    """the chi2 sequence the run itself reports: initial, then one value per completed iteration."""
    h = [_f(r.initial_chi2)] + [_f(it.chi2) for it in r.iteration_results if it.chi2 is not None]
    return h


def check_report(r, orbit_chis, start, tol, max_iter, what, msgs):
    """Two independent obligations (robust against last-bit differences between two ways of summing chi2):
    (faithful)   every chi2 the run reports equals the chi2 of the corresponding orbit state (1e-12 relative, NaN-aware);
    (rule)       converged / num_iterations / len(iteration_results) / rel_diff are exactly what the documented rule
                 yields for the chi2 sequence the run itself reports.
    Returns the number of updates the run performed (by the rule applied to its own report)."""
    h = reported_hist(r)
    if r.initial_chi2 is None or any(x is None for x in h):
        msgs.append("%s: report has no initial chi2" % what)
        return 0
    for t, c in enumerate(h):
        if start + t >= len(orbit_chis):
            msgs.append("%s: reports %d chi2 values, more than the %d states of the run" % (what, len(h), len(orbit_chis) - start))
            break
        if not _same(c, _f(orbit_chis[start + t])):
            msgs.append("%s: reported chi2 #%d is %r but the graph's chi2 at that state is %r" % (what, t, c, orbit_chis[start + t]))
    pred = SR.predict(lambda t: h[min(t, len(h) - 1)], tol, max_iter)
    if len(h) != len(pred["hist"]):
        msgs.append("%s: the run reports %d chi2 values %r; the documented rule applied to them stops after %d" % (what, len(h), h, len(pred["hist"])))
    if bool(r.converged) != pred["converged"]:
        msgs.append("%s: converged=%s but the documented rule gives %s for the reported chi2 sequence %r" % (what, r.converged, pred["converged"], h))
    if r.num_iterations != pred["num_iterations"]:
        msgs.append("%s: num_iterations=%r, expected %r (reported chi2 sequence %r)" % (what, r.num_iterations, pred["num_iterations"], h))
    if len(r.iteration_results) != pred["n_results"]:
        msgs.append("%s: %d iteration results, expected %d" % (what, len(r.iteration_results), pred["n_results"]))
    if not _same(_f(r.final_chi2), h[-1], 0.0):
        msgs.append("%s: final_chi2 %r is not the last reported chi2 %r" % (what, r.final_chi2, h[-1]))
    gr = [_f(it.rel_diff) for it in r.iteration_results if it.chi2 is not None]
    er = [-SR.rel_decrease(h[k - 1], h[k]) for k in range(1, len(h))]
    if len(gr) != len(er) or not all(_same(a, b, 1e-9) or abs(a - b) < 1e-12 for a, b in zip(gr, er)):
        msgs.append("%s: per-iteration rel_diff %r, expected %r" % (what, gr, er))
    comp = [it.is_complete_iteration() for it in r.iteration_results]
    exp_comp = [True] * pred["updates"] + [False] * (pred["n_results"] - pred["updates"])
    if comp != exp_comp and len(comp) == len(exp_comp):
        msgs.append("%s: is_complete_iteration pattern %r, expected %r" % (what, comp, exp_comp))
    return pred["updates"]


def _f(x):
    return None if x is None else float(x)


# ----------------------------------------------------------------------------------------------- chunks
def model_instances(tier):
    inst = [(m, TOLS) for m in ((1, 2, 3) if tier == "quick" else (1, 2, 3, 4, 5))]
    if tier == "thorough":
        inst.append((6, [(0, 1), (55, 100), (95, 100)]))
    return inst


def chunks(tier, seed):
    out = []
    for k, (m, tols) in enumerate(model_instances(tier)):
        parts = 1 if m <= 3 else (4 if m == 4 else 16)
        for p in range(parts):
            out.append(("model", k, p, parts))
    out.append(("script", 0, 0, 1))
    gs = direct_graphs(tier, seed)
    for gi in range(len(gs)):
        out.append(("direct", gi, 0, 1))
        out.append(("split", gi, 0, 1))
        out.append(("edit", gi, 0, 1))
    return out


_TLC_CACHE = {}


def run_chunk(chunk, tier, seed):
    typ, k, part, parts = chunk
    acc = Acc(ID, signature)
    if typ == "script":
        for name in sorted(SCRIPTS):
            for tol in (0.0, 1e-6, 1e-4, 0.05, 0.5):
                for mi in (1, 2, 3, 5, 8, 11):
                    for vb in (False, True):
                        case = {"t": "script", "script": name, "tol": tol, "max_iter": mi, "verbose": vb}
                        acc.evals += 1
                        acc.states += mi
                        acc.transitions += mi
                        acc.traces += 1
                        acc.nontrivial += 1
                        acc.cls("scripted_extreme_sequences")
                        msgs = _eval_script(case)
                        if msgs:
                            acc.violation(case, msgs)
                        acc.sample(case, 1)
        return acc
    if typ == "model":
        m, tols = model_instances(tier)[k]
        used_tlc = TLC.available()
        if used_tlc:
            res = TLC.run(m, CHI2S, tols)
            if not res["ok"] or not res["consistent_tree"]:
                acc.violation({"t": "tlc", "max_iter": m, "tols": [list(t) for t in tols]}, ["TLC did not verify the model (Rule violated or run failed): " + res["stdout_tail"][-600:]])
                return acc
            term = res["terminal"]
            if part == 0:
                acc.states += res["states"]
                acc.transitions += res["transitions"]
                acc.extra["tlc_states"] = res["states"]
                acc.extra["tlc_runs"] = 1
        else:
            term = list(SR.enumerate_model(m, CHI2S, tols))
            if part == 0:
                acc.states += len(term)
                acc.transitions += len(term)
        acc.extra["tlc_used"] = 1 if used_tlc else 0
        term.sort(key=lambda b: (b["tol"], b["hist"]))
        for n, b in enumerate(term):
            if n % parts != part:
                continue
            case = {"t": "model", "max_iter": m, "tol": list(b["tol"]), "hist": b["hist"], "converged": b["converged"], "numIter": b["numIter"], "nResults": b["nResults"], "updates": b["updates"]}
            acc.evals += 1
            acc.traces += 1
            if len(b["hist"]) >= 2:
                acc.nontrivial += 1
            h = b["hist"]
            if b["converged"] and b["numIter"] < m:
                acc.cls("model:early_stop")
                if b["numIter"] == 1:
                    acc.cls("stop_at_first_iteration_possible")
            elif b["converged"]:
                acc.cls("model:limit_converged")
            else:
                acc.cls("model:limit_not_converged")
            if any(h[j + 1] > h[j] for j in range(len(h) - 1)):
                acc.cls("model:chi2_increase")
            if any(h[j + 1] == h[j] for j in range(len(h) - 1)):
                acc.cls("model:equal_chi2")
            acc.outcome("model conv=%s iters=%d results=%d" % (b["converged"], b["numIter"], b["nResults"]))
            msgs = _eval(case)
            if msgs:
                acc.violation(case, msgs)
            acc.sample(case, 1)
        return acc
    gd = direct_graphs(tier, seed)[k]
    if typ == "direct":
        iters = (list(range(1, 7)) + ([7, 9, 16] if gd[0] != "slam" or gd[1]["n"] <= 3 else [])) if tier == "quick" else (range(1, 9) if gd[0] == "slam" and gd[1]["n"] > 3 else list(range(1, 9)) + [12, 20, 30])
        for tol in DIRECT_TOLS:
            for mi in iters:
                case = {"t": "direct", "graph": list(gd), "seed": seed, "tol": tol, "max_iter": mi}
                _do(acc, case)
    elif typ == "edit":
        for tol in (1e-4, 1e-1, 0.0):
            for k in (1, 2, 3):
                for what in ("rebind", "inplace", "flag"):
                    _do(acc, {"t": "edit", "graph": list(gd), "seed": seed, "tol": tol, "max_iter": k, "what": what})
    else:
        nmax = 5 if tier == "quick" else 6
        for n in range(2, nmax + 1):
            for parts_ in compositions(n):
                for tol in (0.0, 1e-4, 1e-1):
                    _do(acc, {"t": "split", "graph": list(gd), "seed": seed, "tol": tol, "parts": parts_})
    return acc


def _do(acc, case):
    acc.evals += 1
    acc.states += 1
    info = {}
    msgs = _eval(case, info)
    acc.transitions += info.get("calls", 1)
    acc.traces += info.get("compared", 1)
    for c in info.get("classes", ()):
        acc.cls(c)
    acc.outcome(info.get("outcome", "?"))
    if info.get("updates", 0) > 0:
        acc.nontrivial += 1
    if msgs:
        acc.violation(case, msgs)
    acc.sample(case, 1)


def eval_case(case):
    return _eval(case)


def signature(case, msgs):
    return {"t": case.get("t")}


def _eval(case, info=None):
    info = info if info is not None else {}
    try:
        t = case["t"]
        if t == "script":
            return _eval_script(case)
        if t == "tlc":
            res = TLC.run(case["max_iter"], CHI2S, [tuple(x) for x in case["tols"]])
            return [] if (res["ok"] and res["consistent_tree"]) else ["TLC: " + res["stdout_tail"][-600:]]
        if t == "model":
            b = {"hist": case["hist"], "tol": tuple(case["tol"]), "converged": case["converged"], "numIter": case["numIter"], "nResults": case["nResults"], "updates": case["updates"]}
            return replay_behaviour(b, case["max_iter"])
        gd = (case["graph"][0], case["graph"][1])
        spec = direct_spec(gd, case["seed"])
        if t == "direct":
            return _eval_direct(case, spec, info)
        if t == "edit":
            return _eval_edit(case, spec, info)
        return _eval_split(case, spec, info)
    except Exception as ex:
        import traceback

        return ["raised %s: %s | %s" % (type(ex).__name__, ex, traceback.format_exc()[-600:])]


def _eval_script(case):
    import contextlib
    import io

    try:
        with contextlib.redirect_stdout(io.StringIO()):
            return replay_script(case)
    except Exception as ex:
        import traceback

        return ["raised %s: %s | %s" % (type(ex).__name__, ex, traceback.format_exc()[-400:])]


def _eval_direct(case, spec, info):
    msgs = []
    tol, mi = case["tol"], case["max_iter"]
    snaps, chis = orbit(spec, mi)
    outs = {}
    upd = 0
    for verbose in (False, True):
        g, verts, edges = _build(spec)
        buf = io.StringIO()
        with contextlib.redirect_stdout(buf):
            r = GB.optimize(g, tol=tol, max_iter=mi, fix_first_pose=False, verbose=verbose)
        snap = GB.snapshot(verts)
        what = "optimize(tol=%g, max_iter=%d, verbose=%s)" % (tol, mi, verbose)
        upd = check_report(r, chis, 0, tol, mi, what, msgs)
        if upd <= mi and not _snap_equal(snap, snaps[upd]):
            msgs.append("%s: returned poses are not the state after %d Gauss-Newton updates" % (what, upd))
        with np.errstate(all="ignore"):
            c2 = float(g.calc_chi2())
        if not _same(_f(r.final_chi2), c2):
            msgs.append("%s: final_chi2 %r but calc_chi2() of the returned graph is %r" % (what, r.final_chi2, c2))
        outs[verbose] = (snap, r, buf.getvalue())
    (s0, r0, o0), (s1, r1, o1) = outs[False], outs[True]
    if not _snap_equal(s0, s1, 0.0):
        msgs.append("verbose=True changes the resulting poses")
    for f in ("converged", "num_iterations"):
        if getattr(r0, f) != getattr(r1, f):
            msgs.append("verbose=True changes %s" % f)
    if not _same(_f(r0.final_chi2), _f(r1.final_chi2), 0.0) or len(r0.iteration_results) != len(r1.iteration_results):
        msgs.append("verbose=True changes the report")
    if o0.strip():
        msgs.append("verbose=False printed %r" % o0[:80])
    nlines = len([l for l in o1.splitlines() if l.strip() and l.strip()[0].isdigit()])
    exp_lines = len(reported_hist(r1))
    if nlines != exp_lines:
        msgs.append("verbose=True printed %d chi2 lines, expected one per reported chi2 (%d)" % (nlines, exp_lines))
    classes = ["direct:verbose", "direct:converged" if r0.converged else "direct:limit"]
    if any(isinstance(c, float) and math.isnan(c) for c in chis):
        classes.append("direct:nan_chi2")
    info.update(classes=classes, calls=2 + mi, compared=2, updates=upd, outcome="direct conv=%s iters=%s" % (r0.converged, r0.num_iterations))
    return msgs


def _eval_split(case, spec, info):
    msgs = []
    parts = case["parts"]
    tol = case["tol"]
    n = sum(parts)
    snaps, chis = orbit(spec, n)
    g, verts, edges = _build(spec)
    u = 0  # total updates applied so far
    calls = 0
    for j, k in enumerate(parts):
        start = u
        if start >= n:
            break
        r = GB.optimize(g, tol=tol, max_iter=k, fix_first_pose=False)
        calls += 1
        what = "call %d of split %r (tol=%g), starting after %d updates" % (j + 1, parts, tol, start)
        upd = check_report(r, chis, start, tol, k, what, msgs)
        u = start + upd
        if u > n or not _snap_equal(GB.snapshot(verts), snaps[min(u, n)]):
            msgs.append("%s: graph is not at orbit state %d after the call (hidden state between calls)" % (what, u))
            break
        if msgs:
            break
    if tol == 0.0 and not msgs:
        if u != n:
            msgs.append("split %r with tol=0 applied %d updates, a single call applies %d" % (parts, u, n))
        g1, v1, _ = _build(spec)
        GB.optimize(g1, tol=0.0, max_iter=n, fix_first_pose=False)
        if not _snap_equal(GB.snapshot(v1), GB.snapshot(verts)):
            msgs.append("split %r ends in different poses than a single optimize(max_iter=%d, tol=0)" % (parts, n))
    info.update(classes=["split:tol0" if tol == 0.0 else "split:tolpos"], calls=calls + n, compared=calls, updates=u, outcome="split calls=%d" % calls)
    return msgs


def _eval_edit(case, spec, info):
    """history: a (possibly converging) first call, then the user changes the graph from outside (a pose re-bound, a pose edited
    in place, a fixed flag toggled), then the judged call: its report must describe the NEW state's orbit (no stale linearisation)."""
    msgs = []
    tol, k = case["tol"], case["max_iter"]
    g, verts, edges = _build(spec)
    GB.optimize(g, tol=max(tol, 1e-6), max_iter=12, fix_first_pose=False)
    free = [i for i, v in enumerate(verts) if not v.fixed]
    if not free or not all(np.all(np.isfinite(np.asarray(v.pose))) for v in verts):
        info.update(classes=["edit:skipped"], calls=1, compared=0, updates=0, outcome="edit skipped")
        return msgs
    j = free[-1]
    if case["what"] == "rebind":
        verts[j].pose = I.mk_pose(spec["vertices"][j]["kind"], spec["vertices"][j]["pose"])
    elif case["what"] == "inplace":
        np.asarray(verts[j].pose)[...] = I.comps(I.mk_pose(spec["vertices"][j]["kind"], spec["vertices"][j]["pose"]))
    else:
        verts[j].fixed = True
    # fresh graph in exactly this state: its single-step orbit is the oracle
    snap = GB.snapshot(verts)
    spec2 = {"vertices": [dict(v, pose=list(sn[2]), fixed=bool(vv.fixed)) for v, sn, vv in zip(spec["vertices"], snap, verts)], "edges": spec["edges"]}
    if spec.get("penalty"):
        spec2["penalty"] = True
    snaps, chis = orbit(spec2, k)
    r = GB.optimize(g, tol=tol, max_iter=k, fix_first_pose=False)
    what = "second call optimize(tol=%g, max_iter=%d) after an external %s of vertex #%d" % (tol, k, case["what"], j)
    upd = check_report(r, chis, 0, tol, k, what, msgs)
    if upd <= k and not _snap_equal(GB.snapshot(verts), snaps[upd]):
        msgs.append("%s: returned poses are not the state %d Gauss-Newton updates after the edited state (stale state from the earlier call?)" % (what, upd))
    info.update(classes=["edit:" + case["what"]], calls=2 + k, compared=1, updates=upd, outcome="edit conv=%s" % r.converged)
    return msgs
