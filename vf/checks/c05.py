"""C05 - local convergence to a stationary point on SE(2)/SE(3) (engine E1 over a finite family; bounded claim)."""
import math

import numpy as np

from .. import gbuild as GB
from .. import impl as I
from .. import slamfam as SF
from ..ref import geom as G
from ..ref import slam as RS
from ..runner import Acc

ID = "C05"

# calibrated neighbourhood (DESIGN 4 C05): full radius per kind
RADII = {"SE2": (0.3, 0.2, 0.03), "SE3": (0.1, 0.05, 0.02)}

META = {
    "rule": "every combination of: family {ring, eight, grid | ring, helix} x size n in {3,6,12} (thorough +24,40) x initial-guess perturbation pattern {plus, minus, alt, sin, cos} x "
    "measurement-noise pattern {zero, alt, sin} x radius {full, half} (thorough: {1, .75, .5, .25}) of the calibrated neighbourhood (SE2: dt .3, dtheta .2, noise .03; SE3: dt .1, dq .05, noise .02) x tol in "
    "{1e-10,1e-6,1e-3} x information scale {1, 1e-6, 1e-10 (pattern alt only)}, max_iter 50; for pattern alt also three histories: an earlier coarser run (tol 1e-3) on the same Graph object, an earlier iteration with the anchor at another vertex, a landmark entered twice with both vertices seeded from ONE shared pose object; plus two graph variants: every landmark also seen from its first pose through a second sensor offset (same offset id), a second disconnected displaced copy of the map anchored by the caller at a middle vertex while the first copy relies on fix_first_pose=True, a vertex list that starts with a landmark (fix_first_pose=True, a middle pose anchored by the caller), and information matrices replaced between two runs. Oracles: final_chi2 <= initial_chi2; Newton decrement b^T H^-1 b of the returned state, from the "
    "REFERENCE error model with 5-point Jacobians, <= 10 tol chi2_final + floor; noise-free: every optimised pose (relative to the fixed first pose) equals ground truth within 1e-7. "
    "non-trivial = initial chi2 > 1e-6 (the run has to move)",
    "assumptions": ["claim limited to the calibrated neighbourhood and the listed families (undamped Gauss-Newton may legitimately diverge outside)", "reference error model + 5-point Jacobians + numpy solve trusted; the converged flag is C12's business"],
    "required_classes": ["kind:SE2", "kind:SE3", "noise_free", "noisy", "landmarks_with_offset", "loop_closure", "tol:1e-10", "tol:0.001", "weak_information", "hist:two_stage", "hist:reanchor", "hist:shared_landmark_seed", "hist:two_sensors", "hist:two_components", "hist:landmark_first", "hist:reweighted", "hist:inplace_perturb", "hist:rotation_only_offsets", "hist:fixed_landmark", "hist:asymmetric_information"],
    "bounds": {"quick": "n in {3,6,12}", "thorough": "n in {3,6,12,24,40}"},
}

TOLS = (1e-10, 1e-6, 1e-3)


def chunks(tier, seed):
    out = []
    sizes = (3, 6, 12) if tier == "quick" else (3, 6, 12, 24, 40)
    for kind in ("SE2", "SE3"):
        for fam in SF.FAMILIES[kind]:
            for n in sizes:
                for pert in SF.PERT_PATTERNS:
                    out.append((kind, fam, n, pert))
    return out


def run_chunk(chunk, tier, seed):
    kind, fam, n, pert = chunk
    acc = Acc(ID, signature)
    for noise in SF.NOISE_PATTERNS:
        for rad in ((1.0, 0.5) if tier == "quick" else (1.0, 0.75, 0.5, 0.25)):
            for tol in TOLS:
                for osc in ((1.0, 1e-6, 1e-10) if pert == "alt" else (1.0,)):
                    _do(acc, {"kind": kind, "fam": fam, "n": n, "pert": pert, "noise": noise, "rad": rad, "tol": tol, "oscale": osc, "seed": seed})
                if pert == "alt" and rad == 1.0:
                    # histories / object reuse: the judged run is not the first thing that happens to the Graph object
                    for hist in ("two_stage", "reanchor", "shared_landmark_seed", "two_sensors", "two_components", "landmark_first", "reweighted", "inplace_perturb", "rotation_only_offsets", "fixed_landmark", "asymmetric_information"):
                        _do(acc, {"kind": kind, "fam": fam, "n": n, "pert": pert, "noise": noise, "rad": rad, "tol": tol, "oscale": 1.0, "seed": seed, "hist": hist})
    return acc


def _do(acc, case):
    acc.evals += 1
    acc.states += 1
    acc.traces += 1
    msgs, info = _eval(case)
    acc.transitions += info.get("iters", 1)
    for c in info.get("classes", ()):
        acc.cls(c)
    acc.outcome("converged=%s" % info.get("converged"))
    if info.get("nontrivial"):
        acc.nontrivial += 1
    acc.ratio(info.get("ratio", 0.0), case if info.get("ratio", 0) > 1e-1 else None)
    if msgs:
        acc.violation(case, msgs)
    acc.sample(case, 1)


def eval_case(case):
    return _eval(case)[0]


def signature(case, msgs):
    return {"kind": case.get("kind"), "fam": case.get("fam")}


def make_spec(case, numeric=False):
    kind = case["kind"]
    dt, dr, nz = RADII[kind]
    r = case["rad"]
    spec, truth = SF.make(case["fam"], kind, case["n"], case["pert"], case["noise"], dt * r, dr * r, 0.0 if case["noise"] == "zero" else nz * r, case["seed"], numeric=numeric)
    if case.get("oscale", 1.0) != 1.0:
        for e in spec["edges"]:
            e["om"] = [[case["oscale"] * x for x in row] for row in e["om"]]
    return spec, truth


def _eval(case):
    try:
        return _eval_inner(case)
    except Exception as ex:
        import traceback

        return ["raised %s: %s | %s" % (type(ex).__name__, ex, traceback.format_exc()[-600:])], {"ratio": float("inf")}


def judge(case, spec, truth, res, verts, msgs):
    """shared with C16: the three oracles on a finished run."""
    kind = case["kind"]
    tol = case["tol"]
    state = {v.id: I.comps(v.pose) for v in verts}
    ratio = 0.0
    if not all(all(math.isfinite(x) for x in c) for c in state.values()):
        msgs.append("non-finite poses inside the calibrated neighbourhood")
        return float("inf")
    if not res.final_chi2 <= res.initial_chi2 * (1.0 + 1e-12) + 1e-22 * case.get("oscale", 1.0) * (1.0 + len(spec["edges"])):  # floor: chi2 of an exact fit is rounding noise
        msgs.append("final_chi2 %.17g exceeds initial_chi2 %.17g" % (res.final_chi2, res.initial_chi2))
    fixed_ids = {v.id for v in verts if v.fixed}
    lam2, chi2_ref, cond = RS.newton_decrement(spec, state, fixed_ids)
    osc = case.get("oscale", 1.0)
    floor = 1e-16 * osc * (1.0 + len(spec["edges"]))
    bound = 10.0 * tol * max(chi2_ref, 0.0) + floor
    ratio = max(ratio, lam2 / bound)
    if not lam2 <= bound:
        msgs.append("returned state is not stationary: Newton decrement %.3g (independent model) > 10 tol chi2 + floor = %.3g (tol %g, chi2 %.6g, %d iterations, converged=%s)" % (lam2, bound, tol, chi2_ref, res.num_iterations, res.converged))
    if not abs(chi2_ref - res.final_chi2) <= 1e-6 * (abs(chi2_ref) + osc * 1e-9):
        msgs.append("final_chi2 %.17g but the reference model gives %.17g for the returned state" % (res.final_chi2, chi2_ref))
    if case["noise"] == "zero":
        t0 = truth[0][2]
        p0 = state[truth[0][0]]
        worst = 0.0
        for vid, k, tc in truth:
            if k in ("SE2", "SE3"):
                got = G.ominus(k, state[vid], p0)
                exp = G.ominus(k, tc, t0)
                d = G.phys_diff(k, got, exp)
            else:
                got = G.act(kind, G.inverse(kind, p0), state[vid])
                exp = G.act(kind, G.inverse(kind, t0), tc)
                d = max(abs(a - b) for a, b in zip(got, exp))
            worst = max(worst, d)
        ratio = max(ratio, worst / 1e-7)
        if worst > 1e-7:
            msgs.append("noise-free measurements but the optimised poses differ from ground truth by %.3g (> 1e-7) after %d iterations" % (worst, res.num_iterations))
    return ratio


def _eval_inner(case):
    spec, truth = make_spec(case)
    hist = case.get("hist")
    if hist == "shared_landmark_seed":
        # the same physical landmark entered twice (two vertices, same observations), both seeded from ONE shared pose object
        import copy as _c

        lm = [v for v in spec["vertices"] if v["id"] >= 1000][0]
        twin_id = 2000
        spec["vertices"].append(dict(lm, id=twin_id))
        for e in [e for e in spec["edges"] if e["ids"][-1] == lm["id"]]:
            e2 = _c.deepcopy(e)
            e2["ids"] = [e["ids"][0], twin_id]
            spec["edges"].append(e2)
        truth = truth + [[twin_id, truth[[t[0] for t in truth].index(lm["id"])][1], truth[[t[0] for t in truth].index(lm["id"])][2]]]
    ffp = False
    if hist == "two_sensors":
        # every landmark is also seen from its first pose through a SECOND sensor (another offset, same offset id None)
        import copy as _c

        kind = case["kind"]
        off2 = [-0.4, 0.25, -1.1] if kind == "SE2" else [-0.3, 0.2, 0.1] + SF.A.unit([0.3, 0.1, -0.3, 1.0])
        tmap = {t[0]: t[2] for t in truth}
        seen = set()
        for e in list(spec["edges"]):
            if e["type"] in ("lm", "numlm") and e["ids"][1] not in seen:
                seen.add(e["ids"][1])
                e2 = _c.deepcopy(e)
                e2["off"] = off2
                sens = G.compose(kind, tmap[e["ids"][0]], off2)
                e2["z"] = G.act(kind, G.inverse(kind, sens), tmap[e["ids"][1]])
                spec["edges"].append(e2)
    if hist == "two_components":
        # a second, disconnected copy of the map (rigidly displaced) anchored by the CALLER at one of its middle vertices;
        # the first component relies on optimize(fix_first_pose=True)
        import copy as _c

        kind = case["kind"]
        T = [7.0, -3.0, 0.8] if kind == "SE2" else [7.0, -3.0, 2.0] + [0.0, 0.6, 0.0, 0.8]
        np_ = len([v for v in spec["vertices"] if v["id"] < 1000])
        tmap = {t[0]: t for t in truth}
        extra_v, extra_t = [], []
        for v in spec["vertices"]:
            v2 = _c.deepcopy(v)
            v2["id"] = v["id"] + 5000
            t = tmap[v["id"]]
            if v["kind"] in ("SE2", "SE3"):
                v2["pose"] = G.compose(kind, T, v["pose"])
                t2 = G.compose(kind, T, t[2])
            else:
                v2["pose"] = G.act(kind, T, v["pose"])
                t2 = G.act(kind, T, t[2])
            v2["fixed"] = bool(v["id"] == np_ // 2)
            if v2["fixed"]:
                v2["pose"] = list(t2)
            extra_v.append(v2)
            extra_t.append([v2["id"], t[1], t2])
        extra_e = []
        for e in spec["edges"]:
            e2 = _c.deepcopy(e)
            e2["ids"] = [i + 5000 for i in e["ids"]]
            extra_e.append(e2)
        spec["vertices"][0]["fixed"] = False
        spec["vertices"] += extra_v
        spec["edges"] += extra_e
        truth = truth + extra_t
        ffp = True
    if hist == "rotation_only_offsets":
        # the sensor sits AT the vehicle origin but looks another way: offsets with zero lever arm and a rotation
        kind = case["kind"]
        offr = [0.0, 0.0, 0.5] if kind == "SE2" else [0.0, 0.0, 0.0] + SF.A.unit([0.2, -0.3, 0.1, 0.9])
        tmap = {t[0]: t[2] for t in truth}
        for e in spec["edges"]:
            if e["type"] in ("lm", "numlm"):
                e["off"] = list(offr)
                sens = G.compose(kind, tmap[e["ids"][0]], offr)
                e["z"] = G.act(kind, G.inverse(kind, sens), tmap[e["ids"][1]])
    if hist == "fixed_landmark":
        # a surveyed beacon: the first landmark is fixed at its true position and listed in the MIDDLE of the vertex list
        tmap = {t[0]: t[2] for t in truth}
        lms = [v for v in spec["vertices"] if v["id"] >= 1000]
        lms[0]["pose"] = list(tmap[lms[0]["id"]])
        lms[0]["fixed"] = True
        rest = [v for v in spec["vertices"] if v is not lms[0]]
        spec["vertices"] = rest[:2] + [lms[0]] + rest[2:]
    if hist == "asymmetric_information":
        # information matrices that are symmetric only up to round-off (as np.linalg.inv of a covariance returns them)
        for e in spec["edges"]:
            om = [list(r) for r in e["om"]]
            om[0][1] = math.nextafter(om[0][1], math.inf)
            e["om"] = om
    if hist == "landmark_first":
        # the vertex list starts with a landmark (seeded at its true position); the caller anchors a middle pose and leaves
        # fix_first_pose at True: exactly the first LISTED vertex (the landmark) and the marked pose are held
        tmap = {t[0]: t[2] for t in truth}
        lms = [v for v in spec["vertices"] if v["id"] >= 1000]
        poses_ = [v for v in spec["vertices"] if v["id"] < 1000]
        lms[0]["pose"] = list(tmap[lms[0]["id"]])
        poses_[0]["fixed"] = False
        # the first POSE is free and starts away from its true place (SF.make seeds the anchor at the truth)
        k_ = case["kind"]
        poses_[0]["pose"] = G.compose(k_, tmap[poses_[0]["id"]], G.exp_compact(k_, [0.05, -0.04, 0.03] if k_ == "SE2" else [0.03, -0.02, 0.02, 0.01, -0.01, 0.015]))
        mid = poses_[len(poses_) // 2]
        mid["fixed"] = True
        mid["pose"] = list(tmap[mid["id"]])
        spec["vertices"] = lms + poses_
        # ground truth is compared relative to its first entry: make that the anchored pose
        truth = [t for t in truth if t[0] == mid["id"]] + [t for t in truth if t[0] != mid["id"]]
        ffp = True
    g, verts, edges = GB.build(spec)
    if hist == "inplace_perturb":
        # the caller first evaluates chi2 with every vertex at another place, then writes the start configuration INTO the
        # existing pose objects (also into the anchor's): the optimiser must work from what the arrays hold now
        start = [np.array(v.pose, dtype=float, copy=True) for v in verts]
        for k, v in enumerate(verts):
            arr = np.asarray(v.pose)
            arr[: G.DIM[I.kind_of(v.pose)]] += 0.5 + 0.25 * k
            if I.kind_of(v.pose) == "SE2":
                arr[2] = arr[2] * 0.5 + 0.3
            elif I.kind_of(v.pose) == "SE3":
                arr[3:] = SF.A.unit([0.3, -0.2, 0.4, 0.8])
        g.calc_chi2()
        for e in edges:
            e.calc_jacobians()
        for v, a0 in zip(verts, start):
            np.asarray(v.pose)[...] = a0
    if hist == "reweighted":
        # between two runs the caller replaces information matrices (down-weighting the loop closures): the second run must
        # descend the NEW objective
        GB.optimize(g, tol=1e-3, max_iter=50, fix_first_pose=False)
        np_ = len([v for v in spec["vertices"] if v["id"] < 1000])
        for es, ed in zip(spec["edges"], edges):
            a, b = es["ids"][0], es["ids"][-1]
            if b < 1000 and abs(a - b) != 1:
                es["om"] = [[0.02 * x for x in r] for r in es["om"]]
                ed.information = np.array(es["om"], dtype=float)
            elif b >= 1000:
                es["om"] = [[3.0 * x for x in r] for r in es["om"]]
                ed.information = 3.0 * np.asarray(ed.information)
    if hist == "shared_landmark_seed":
        byid = {v.id: v for v in verts}
        byid[2000].pose = byid[[v["id"] for v in spec["vertices"] if v["id"] >= 1000][0]].pose
    elif hist == "two_stage":
        # an earlier, coarser run on the same Graph object (a later call must honour its own tolerance)
        GB.optimize(g, tol=1e-3, max_iter=50, fix_first_pose=False)
    elif hist == "reanchor":
        # an earlier single iteration with the anchor at another vertex (which is then released again)
        k = len([v for v in spec["vertices"] if v["id"] < 1000]) // 2
        verts[0].fixed = False
        verts[k].fixed = True
        GB.optimize(g, tol=0.0, max_iter=1, fix_first_pose=False)
        verts[k].fixed = False
        verts[0].pose = I.mk_pose(spec["vertices"][0]["kind"], truth[0][2])
        verts[0].fixed = True
    res = GB.optimize(g, tol=case["tol"], max_iter=50, fix_first_pose=ffp)
    msgs = []
    ratio = judge(case, spec, truth, res, verts, msgs)
    classes = ["kind:" + case["kind"], "noise_free" if case["noise"] == "zero" else "noisy", "landmarks_with_offset", "loop_closure", "tol:%g" % case["tol"]]
    if case.get("oscale", 1.0) != 1.0:
        classes.append("weak_information")
    if hist:
        classes.append("hist:" + hist)
    return msgs, {"ratio": ratio, "classes": classes, "iters": res.num_iterations, "converged": res.converged, "nontrivial": res.initial_chi2 > 1e-6 * case.get("oscale", 1.0)}
