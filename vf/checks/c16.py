"""C16 - custom edges with numerical Jacobians optimise like analytic ones (engine E1 over programs x inputs)."""
import math

import numpy as np

from .. import alphabets as A
from .. import deriv as D
from .. import gbuild as GB
from .. import impl as I
from .. import slamfam as SF
from ..ref import geom as G
from ..runner import Acc
from . import c05

ID = "C16"

META = {
    "rule": "program family = 10 custom error functions (incl. one with derivatives of size 1e-7 and one that overrides the differentiation step) that define ONLY calc_error (distance, range to a point, relative pose, prior, landmark observation with offset, ternary midpoint, "
    "ternary equal spacing, scalar bearing-free range) instantiated over every admissible pose-type combination (26 programs). (jac) every program x every vertex-pose tuple of the "
    "pose alphabet (pairs; triples on a thinned alphabet): the library's numerical Jacobians (BaseEdge.calc_jacobians) vs the 5-point derivative, one Jacobian per vertex of shape "
    "len(e) x COMPACT, accuracy of a 1e-6 forward difference; poses restored bitwise; (opt) SLAM families of C05 (n in {3,6,12}) with every odometry / landmark edge replaced by its "
    "numerical-Jacobian twin + distance edges: same optimum as the analytic graph (1e-5) and the C05 oracles (independent Newton decrement, ground truth). "
    "non-trivial = Jacobian with an entry outside {0,+-1}",
    "assumptions": ["forward-difference accuracy bound: 1e-5 x (1 + lever arms) x (1 + 1/distance for distance-like programs) + 1e-8 |e| + 1e-8 |coordinates| (rounding); every configuration is also evaluated shifted by (5000,-3000,2000) and after moving vertex 0", "finite program family and alphabets; optimisation inside the C05 radii"],
    "required_classes": ["prog:lastcoord", "prog:distance", "prog:range", "prog:relpose", "prog:prior", "prog:landmark", "prog:midpoint", "prog:spacing", "prog:scaled", "prog:finestep", "arity:1", "arity:2", "arity:3", "far_cluster", "moved_then_requested_again", "kind:SE3", "kind:SE2", "opt:ternary_edges", "opt:numeric_twin", "opt:distance_edges"],
    "bounds": {"quick": "quick pose alphabets (pairs), 8-pose thinned alphabet (triples); SLAM n in {3,6}", "thorough": "thorough alphabets thinned to 60 poses (pairs), 12 (triples); SLAM n in {3,6,12}"},
}


# ------------------------------------------------------------------------------------------------ programs
class _Prog(I.BaseEdge):
    def is_valid(self):
        return self._is_valid()


class Distance(_Prog):
    def calc_error(self):
        return np.array([np.linalg.norm((self.vertices[0].pose - self.vertices[1].pose).position) - self.estimate])


class Range(_Prog):
    """distance from a pose to a point, measured in the sensor frame."""

    def calc_error(self):
        local = self.vertices[0].pose.inverse + self.vertices[1].pose
        return np.array([np.linalg.norm(local.to_array()) - self.estimate])


class RelPose(_Prog):
    def calc_error(self):
        return (self.estimate - (self.vertices[1].pose - self.vertices[0].pose)).to_compact()


class Prior(_Prog):
    def calc_error(self):
        return (self.vertices[0].pose - self.estimate).to_compact()


class LandmarkObs(_Prog):
    offset = None

    def calc_error(self):
        return (((self.vertices[0].pose + self.offset).inverse + self.vertices[1].pose) - self.estimate).to_compact()


class ScaledRel(_Prog):
    """a perfectly smooth error whose derivatives are tiny (1e-7): e = 1e-7 ((p2 - p1).position - estimate)."""

    def calc_error(self):
        d = (self.vertices[1].pose - self.vertices[0].pose).position
        return 1e-7 * (d - self.estimate[: len(d)])


class FineStep(RelPose):
    """same program as RelPose, but the class overrides the documented differentiation step."""

    _NUMERICAL_DIFFERENTIATION_EPSILON = 1e-7


class Midpoint(_Prog):
    def calc_error(self):
        a, b, c = (v.pose.position for v in self.vertices)
        k = min(len(a), len(b), len(c))
        return 0.5 * (a[:k] + b[:k]) - c[:k] - self.estimate[:k]


class Spacing(_Prog):
    def calc_error(self):
        a, b, c = (v.pose.position for v in self.vertices)
        k = min(len(a), len(b), len(c))
        return np.array([np.linalg.norm(a[:k] - b[:k]) - np.linalg.norm(b[:k] - c[:k]) - float(self.estimate)])


class LastCoord(_Prog):
    """the error ignores every compact coordinate of the vertex but the LAST one (altitude / heading prior); for SE(2) the heading
    difference is wrapped, so the program is smooth also for headings just below +pi"""

    def calc_error(self):
        p = self.vertices[0].pose
        d = float(p.to_compact()[-1]) - float(self.estimate)
        if type(p).__name__ == "PoseSE2":
            d = (d + math.pi) % (2 * math.pi) - math.pi
        return np.array([d])


def programs():
    out = []
    for k in I.KINDS:
        out.append(("distance", Distance, [k, k]))
        out.append(("relpose", RelPose, [k, k]))
        out.append(("prior", Prior, [k]))
    for k in I.KINDS:
        out.append(("lastcoord", LastCoord, [k]))
    for k in ("SE2", "SE3"):
        out.append(("range", Range, [k, I.POINT_OF[k]]))
    for k in I.KINDS:
        out.append(("landmark", LandmarkObs, [k, I.POINT_OF[k]]))
    for k in ("R2", "SE2", "SE3"):
        out.append(("scaled", ScaledRel, [k, k]))
        out.append(("finestep", FineStep, [k, k]))
    out.append(("midpoint", Midpoint, ["SE2", "R2", "SE2"]))
    out.append(("midpoint", Midpoint, ["SE3", "R3", "R3"]))
    out.append(("midpoint", Midpoint, ["SE3", "SE2", "R2"]))
    out.append(("spacing", Spacing, ["SE2", "SE2", "SE2"]))
    out.append(("spacing", Spacing, ["SE3", "R3", "SE3"]))
    out.append(("spacing", Spacing, ["R2", "SE2", "R3"]))
    return out


FAR = [5000.0, -3000.0, 2000.0]


def _estimate(name, kinds, seed):
    if name == "lastcoord":
        return 0.3
    if name in ("distance", "range", "spacing"):
        return 1.7 if name != "spacing" else 0.3
    if name == "scaled":
        return np.array([0.1, -0.2, 0.3])
    if name in ("relpose", "finestep"):
        return I.mk_pose(kinds[0], A.poses(kinds[0], "quick", seed)[4 if kinds[0] in ("SE2", "SE3") else 1])
    if name == "prior":
        return I.mk_pose(kinds[0], A.poses(kinds[0], "quick", seed)[5 if kinds[0] in ("SE2", "SE3") else 2])
    if name == "landmark":
        pk = kinds[1]
        return I.mk_pose(pk, [0.4, -0.6, 0.9][: I.COMPACT[pk]])
    return np.array([0.1, -0.2, 0.3])


def _thin(ps, n):
    if len(ps) <= n:
        return ps
    step = len(ps) / float(n)
    return [ps[int(i * step)] for i in range(n)]


def _alpha(kind, tier, seed, n):
    ps = A.poses(kind, tier, seed)
    out = _thin(ps, n)
    if kind == "SE2" and n >= 20:
        # headings entered with 7 decimals of pi: a forward step of 1e-6 carries the stored angle across the +-pi seam
        out = out + [[0.7, -1.3, 3.1415926], [0.0, 0.0, -3.1415926]]
    return out


def chunks(tier, seed):
    out = []
    for pi, (name, cls, kinds) in enumerate(programs()):
        if len(kinds) <= 2:
            n0 = len(_alpha(kinds[0], tier, seed, 60))
            for i in range(n0):
                out.append(("jac", pi, i))
        else:
            n0 = len(_alpha(kinds[0], tier, seed, 8 if tier == "quick" else 12))
            for i in range(n0):
                out.append(("jac", pi, i))
    for kind in ("SE2", "SE3"):
        for fam in SF.FAMILIES[kind]:
            for n in ((3, 6) if tier == "quick" else (3, 6, 12)):
                out.append(("opt", (kind, fam, n), 0))
    return out


def run_chunk(chunk, tier, seed):
    typ, a, i = chunk
    acc = Acc(ID, signature)
    if typ == "jac":
        name, cls, kinds = programs()[a]
        if len(kinds) == 1:
            p0 = _alpha(kinds[0], tier, seed, 60)[i]
            _do(acc, {"t": "jac", "prog": a, "poses": [p0], "seed": seed})
            _do(acc, {"t": "jac", "prog": a, "poses": [p0], "seed": seed, "far": True})
        elif len(kinds) == 2:
            p0 = _alpha(kinds[0], tier, seed, 60)[i]
            for p1 in _alpha(kinds[1], tier, seed, 60):
                _do(acc, {"t": "jac", "prog": a, "poses": [p0, p1], "seed": seed})
                _do(acc, {"t": "jac", "prog": a, "poses": [p0, p1], "seed": seed, "far": True})
        else:
            m = 8 if tier == "quick" else 12
            p0 = _alpha(kinds[0], tier, seed, m)[i]
            for p1 in _alpha(kinds[1], tier, seed, m):
                for p2 in _alpha(kinds[2], tier, seed, m):
                    _do(acc, {"t": "jac", "prog": a, "poses": [p0, p1, p2], "seed": seed})
    else:
        kind, fam, n = a
        for pert in ("alt", "sin"):
            for noise in SF.NOISE_PATTERNS:
                for tol in (1e-10, 1e-4):
                    for extra in (False, True):
                        for fx in ("first", "last_pose"):
                            _do(acc, {"t": "opt", "kind": kind, "fam": fam, "n": n, "pert": pert, "noise": noise, "rad": 1.0, "tol": tol, "seed": seed, "distance_edges": extra, "fix": fx})
                        if n >= 6:
                            _do(acc, {"t": "opt", "kind": kind, "fam": fam, "n": n, "pert": pert, "noise": noise, "rad": 1.0, "tol": tol, "seed": seed, "distance_edges": False, "fix": "first", "ternary_edges": True})
    return acc


def _do(acc, case):
    acc.evals += 1
    acc.states += 1
    acc.traces += 1
    msgs, info = _eval(case)
    acc.transitions += info.get("ops", 1)
    for c in info.get("classes", ()):
        acc.cls(c)
    if info.get("nontrivial"):
        acc.nontrivial += 1
    acc.ratio(info.get("ratio", 0.0), case if info.get("ratio", 0) > 0.2 else None)
    if msgs:
        acc.violation(case, msgs)
    acc.sample(case, 1)


def eval_case(case):
    return _eval(case)[0]


def signature(case, msgs):
    return {"t": case.get("t"), "prog": case.get("prog")}


def _eval(case):
    try:
        if case["t"] == "jac":
            return _eval_jac(case)
        return _eval_opt(case)
    except Exception as ex:
        import traceback

        return ["raised %s: %s | %s" % (type(ex).__name__, ex, traceback.format_exc()[-600:])], {"ratio": float("inf")}


def _eval_jac(case):
    name, cls, kinds = programs()[case["prog"]]
    seed = case["seed"]
    poses = [list(c) for c in case["poses"]]
    if case.get("far"):
        # the same configuration far from the origin (common shift of every vertex): relative geometry unchanged
        for k, c in zip(kinds, poses):
            for a in range(G.DIM[k]):
                c[a] += FAR[a]
    verts = [I.Vertex(10 + k, I.mk_pose(kinds[k], poses[k])) for k in range(len(kinds))]
    est = _estimate(name, kinds, seed)
    e = cls([v.id for v in verts], np.eye(1), est, verts)
    if name == "landmark":
        e.offset = I.mk_pose(kinds[0], A.poses(kinds[0], "quick", seed)[7 if kinds[0] in ("SE2", "SE3") else 1])
    msgs = []
    classes = ["prog:" + name, "arity:%d" % len(kinds)] + ["kind:" + k for k in kinds]
    before = [np.asarray(v.pose).tobytes() for v in verts]
    ids_before = [id(v.pose) for v in verts]
    with np.errstate(all="ignore"):
        e0 = np.asarray(e.calc_error(), dtype=float).ravel()
        jacs = I.BaseEdge.calc_jacobians(e)
    after = [np.asarray(v.pose).tobytes() for v in verts]
    if before != after:
        msgs.append("numerical differentiation did not restore the vertex poses bitwise")
    # the Jacobians handed out stay what they are while ANOTHER edge of the same type (other poses) is differentiated
    keep = [np.array(J, dtype=float, copy=True) for J in jacs]
    oposes = [[x + (0.45, -0.35, 0.25)[a] if a < G.DIM[k] else x for a, x in enumerate(c)] for k, c in zip(kinds, poses)]
    overts = [I.Vertex(20 + k, I.mk_pose(kinds[k], oposes[k])) for k in range(len(kinds))]
    other = cls([v.id for v in overts], np.eye(1), est, overts)
    if name == "landmark":
        other.offset = e.offset
    with np.errstate(all="ignore"):
        try:
            I.BaseEdge.calc_jacobians(other)
        except Exception:
            pass
    if len(keep) != len(jacs) or any(np.asarray(a).shape != b.shape or not np.array_equal(np.asarray(a, dtype=float), b, equal_nan=True) for a, b in zip(jacs, keep)):
        msgs.append("%s over %r: the numerical Jacobians returned for one edge changed when another edge of the same type was differentiated (shared result buffer)" % (name, kinds))
    if len(jacs) != len(verts):
        msgs.append("%d Jacobians for a %d-vertex edge" % (len(jacs), len(verts)))
        return msgs, {"classes": classes, "ratio": float("inf")}
    # second-derivative scale of the programs: lever arms between the vertices / to the measurement, NOT absolute coordinates
    ts = [c[: G.DIM[k]] for k, c in zip(kinds, case["poses"])]
    tsc = 1.0 + sum(max(abs(x) for x in t) for t in ts)
    absmax = 1.0 + max(max(abs(x) for x in c[: G.DIM[k]]) for k, c in zip(kinds, poses))
    # distance-like errors are not differentiable where the distance vanishes (and the 5-point oracle, stencil width 4e-3, cannot
    # resolve the kink when the distance is comparable to it): configurations with a distance below 0.05 are skipped and counted
    if name in ("distance", "range", "spacing"):
        d0 = _min_distance(name, e)
        if d0 < 0.05:
            return [], {"classes": classes, "ratio": 0.0, "ops": 1, "nontrivial": False}
    if name in ("relpose", "prior", "finestep") and kinds[0] == "SE2" and abs(abs(e0[2]) - math.pi) < 0.02:
        # the SE(2) angular error wraps here: the error function itself is discontinuous (not a smooth program at this point)
        return [], {"classes": classes + ["excluded:se2_wrap_set"], "ratio": 0.0, "ops": 1, "nontrivial": False}
    angle_idx = (2,) if (name in ("relpose", "prior", "finestep") and kinds[0] == "SE2") else ()
    if name == "lastcoord" and kinds[0] == "SE2":
        if abs(abs(e0[0]) - math.pi) < 0.02:
            return [], {"classes": classes + ["excluded:se2_wrap_set"], "ratio": 0.0, "ops": 1, "nontrivial": False}
        angle_idx = (0,)
    rot = slice(3, 6) if (name in ("relpose", "prior", "finestep") and kinds[0] == "SE3") else None
    pscale = 1e-7 if name == "scaled" else 1.0  # the accuracy bound scales with the program
    ratio = 0.0
    nontriv = False
    ops = 1
    for vi, v in enumerate(verts):
        J = np.asarray(jacs[vi], dtype=float)
        cd = v.pose.COMPACT_DIMENSIONALITY
        if J.shape != (len(e0), cd):
            msgs.append("numerical Jacobian %d has shape %r, expected %r" % (vi, J.shape, (len(e0), cd)))
            continue
        _, Jn = D.edge_fd_jacobian(e, vi, angle_idx, rot)
        ops += 4 * cd
        if np.any((np.abs(Jn) > 1e-6) & (np.abs(np.abs(Jn) - 1.0) > 1e-6)):
            nontriv = True
        # near a vanishing distance the second derivative ~ 1/d blows the forward-difference error up
        curv = 1.0
        if name in ("distance", "range", "spacing"):
            curv = 1.0 + 1.0 / max(_min_distance(name, e), 1e-3)
        bound = pscale * (1e-5 * tsc * curv + 1e-8 * absmax) + 1e-8 * float(np.max(np.abs(e0)))
        d = float(np.max(np.abs(J - Jn)))
        ratio = max(ratio, d / bound)
        if not d <= bound:
            msgs.append("%s over %r: numerical Jacobian of vertex %d differs from the 5-point derivative by %.3g (> %.3g, forward-difference accuracy)" % (name, kinds, vi, d, bound))
    # the derivative does not know about fixed flags
    if not msgs:
        for v in verts:
            v.fixed = True
        with np.errstate(all="ignore"):
            jf = I.BaseEdge.calc_jacobians(e)
        for v in verts:
            v.fixed = False
        ops += 1
        if len(jf) != len(jacs) or any(np.asarray(a).shape != np.asarray(b).shape or not np.allclose(np.asarray(a, dtype=float), np.asarray(b, dtype=float), rtol=0, atol=1e-12 * absmax) for a, b in zip(jf, jacs)):
            msgs.append("%s over %r: numerical Jacobians change when the vertices are marked fixed" % (name, kinds))
    # object reuse: the measurement IS the first vertex's pose object (prior / relative pose anchored at the current estimate)
    if not msgs and name in ("prior",) and not case.get("far"):
        e2 = cls([verts[0].id], np.eye(1), verts[0].pose, [verts[0]])
        with np.errstate(all="ignore"):
            j2 = I.BaseEdge.calc_jacobians(e2)
        _, Jn2 = D.edge_fd_jacobian(cls([verts[0].id], np.eye(1), I.mk_pose(kinds[0], I.comps(verts[0].pose)), [verts[0]]), 0, angle_idx, rot)
        d2 = float(np.max(np.abs(np.asarray(j2[0], dtype=float) - Jn2)))
        ops += 1
        if not d2 <= 1e-5 * tsc + 1e-8 * absmax:
            msgs.append("prior whose measurement object IS the vertex's pose object: numerical Jacobian differs from the derivative by %.3g (aliasing)" % d2)
    # history: the vertex moves (as during optimisation), the Jacobians are requested again
    if not msgs and not case.get("far"):
        v0 = verts[0]
        with np.errstate(all="ignore"):
            try:
                e.information = np.eye(len(e0))
                e.calc_chi2_gradient_hessian()  # the edge was linearised (as optimize() does) at the OLD poses
            except Exception as ex:
                msgs.append("calc_chi2_gradient_hessian raised %s" % type(ex).__name__)
        c0 = I.comps(v0.pose)
        for a in range(G.DIM[kinds[0]]):
            c0[a] += (0.37, -0.21, 0.11)[a]
        v0.pose = I.mk_pose(kinds[0], c0)
        if not (name in ("distance", "range", "spacing") and _min_distance(name, e) < 0.05):
            e1 = np.asarray(e.calc_error(), dtype=float).ravel()
            if not (name in ("relpose", "prior", "finestep") and kinds[0] == "SE2" and abs(abs(e1[2]) - math.pi) < 0.02):
                jacs2 = I.BaseEdge.calc_jacobians(e)
                for vi, v in enumerate(verts):
                    _, Jn = D.edge_fd_jacobian(e, vi, angle_idx, rot)
                    curv = 1.0 + (1.0 / max(_min_distance(name, e), 1e-3) if name in ("distance", "range", "spacing") else 0.0)
                    bound = pscale * (1e-5 * (tsc + 1.0) * curv + 1e-8 * absmax) + 1e-8 * float(np.max(np.abs(e1)))
                    d = float(np.max(np.abs(np.asarray(jacs2[vi], dtype=float) - Jn)))
                    ratio = max(ratio, d / bound)
                    ops += 4 * v.pose.COMPACT_DIMENSIONALITY
                    if not d <= bound:
                        msgs.append("%s over %r: after vertex 0 moved, the numerical Jacobian of vertex %d differs from the 5-point derivative at the new pose by %.3g (> %.3g)" % (name, kinds, vi, d, bound))
    return msgs, {"classes": classes + (["far_cluster"] if case.get("far") else ["moved_then_requested_again"]), "ratio": ratio, "ops": ops, "nontrivial": nontriv}


def _min_distance(name, e):
    if name == "distance":
        return float(np.linalg.norm((e.vertices[0].pose - e.vertices[1].pose).position))
    if name == "range":
        return float(np.linalg.norm((e.vertices[0].pose.inverse + e.vertices[1].pose).to_array()))
    a, b, c = (v.pose.position for v in e.vertices)
    k = min(len(a), len(b), len(c))
    return float(min(np.linalg.norm(a[:k] - b[:k]), np.linalg.norm(b[:k] - c[:k])))


def _eval_opt(case):
    msgs = []
    spec_a, truth = c05.make_spec(case, numeric=False)
    spec_n, _ = c05.make_spec(case, numeric=True)
    if case.get("fix") == "last_pose":
        # the fixed vertex is listed LAST in the odometry edges that touch it (and is not the first vertex of the graph)
        k = case["n"] - 1
        for sp in (spec_a, spec_n):
            sp["vertices"][0]["fixed"] = False
            sp["vertices"][k]["fixed"] = True
            sp["vertices"][k]["pose"] = list(truth[k][2])
        truth = [truth[k]] + [t for i, t in enumerate(truth) if i != k]
    classes = ["opt:numeric_twin", "kind:" + case["kind"]]
    extra = []
    if case.get("distance_edges"):
        classes.append("opt:distance_edges")
        # distance constraints between consecutive poses, consistent with ground truth (so the optimum is unchanged when noise-free)
        tr = {t[0]: t for t in truth}
        n = case["n"]
        for i in range(0, n - 1, 2):
            a, b = tr[i][2], tr[i + 1][2]
            d = math.sqrt(sum((x - y) ** 2 for x, y in zip(a[: G.DIM[case["kind"]]], b[: G.DIM[case["kind"]]])))
            extra.append((i, i + 1, d))
    if case.get("ternary_edges"):
        classes.append("opt:ternary_edges")
        # 3-vertex constraints (x_i + x_{i+2} - 2 x_{i+1} in the plane) listed as [i, i+2, i+1], consistent with ground truth
        tr = {t[0]: t for t in truth}
        for i in range(0, case["n"] - 2, 2):
            z = [tr[i][2][k] + tr[i + 2][2][k] - 2.0 * tr[i + 1][2][k] for k in range(2)]
            for sp, ty in ((spec_a, "tern"), (spec_n, "numtern")):
                sp["edges"].append({"type": ty, "ids": [i, i + 2, i + 1], "z": z, "om": [[300.0, 50.0], [50.0, 200.0]]})
    results = []
    for spec, numeric in ((spec_a, False), (spec_n, True)):
        g, verts, edges = GB.build(spec, with_graph=False)
        if extra:
            byid = {v.id: v for v in verts}
            for (i, j, d) in extra:
                edges.append(Distance([i, j], np.array([[4.0]]), d))
        g = I.Graph(edges, verts)
        res = GB.optimize(g, tol=case["tol"], max_iter=50, fix_first_pose=False)
        results.append((GB.snapshot(verts), res, verts))
    (sa, ra, va), (sn, rn, vn) = results
    ratio = 0.0
    worst = 0.0
    for a, b in zip(sa, sn):
        if not all(math.isfinite(x) for x in b[2]):
            msgs.append("numerical-Jacobian graph produced non-finite poses")
            return msgs, {"classes": classes, "ratio": float("inf")}
        worst = max(worst, G.phys_diff(a[1], a[2], b[2]))
    tol_opt = 1e-5 + (30.0 * case["tol"] if case["tol"] > 1e-8 else 0.0)
    ratio = max(ratio, worst / tol_opt)
    if worst > tol_opt:
        msgs.append("optimum with numerical Jacobians differs from the optimum with analytic Jacobians by %.3g (> %.3g); iterations %d vs %d" % (worst, tol_opt, rn.num_iterations, ra.num_iterations))
    if not rn.final_chi2 <= rn.initial_chi2 * (1 + 1e-12) + 1e-300:
        msgs.append("numerical-Jacobian run increased chi2")
    if not extra:
        # the C05 oracles on the numerical-Jacobian run (independent Newton decrement, ground truth)
        case2 = dict(case)
        case2["tol"] = max(case["tol"], 1e-7)
        r2 = c05.judge(case2, spec_a, truth, rn, vn, msgs)
        ratio = max(ratio, min(r2, 1e6) if r2 == r2 else 1e6)
    return msgs, {"classes": classes, "ratio": ratio, "ops": ra.num_iterations + rn.num_iterations, "nontrivial": True}
