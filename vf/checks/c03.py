"""C03 - one optimizer iteration is exactly the Gauss-Newton step (engine E1 over configurations)."""
import itertools
import math

import numpy as np

from .. import alphabets as A
from .. import families as F
from .. import gbuild as GB
from .. import impl as I
from ..ref import geom as G
from ..ref import gn
from ..runner import Acc

ID = "C03"
TOL = 1e-9

META = {
    "rule": "graph-shape family F(n,m) (families.py): n in {2,3} vertices of every type multiset, every multiset of 1..m candidate edges (type-correct odometry/landmark "
    "edges on every ordered pair, unary prior, ternary custom edges; duplicates = parallel edges). Sub-products: L = larger graphs (SLAM families with 4..33 (thorough 64) poses, a 9-landmark star, two components with their own anchors, a degree-5 hub, 33-vertex R^n chains) x 3 vertex list orders x fix_first_pose, and for graphs up to 17 poses ONE optimize(tol=0, max_iter=k) call, k in {2,3,5,8}, against k reference steps; A = x every fixed subset x fix_first_pose x every vertex "
    "list permutation; B = x every edge-list permutation; C = x id maps (negative, sparse, huge, id 0 on a non-first vertex) x fix_first_pose, and information scaled by 1e-9 x every fixed subset; P = all vertices initialised from ONE shared pose object x every non-empty fixed subset; H = histories: one iteration under fixed set S1, flags changed to S2 (every ordered pair of non-empty subsets), the next iteration is judged. Ill-posed configurations (a component without fixed vertex, or reduced "
    "Hessian cond > 1e6, by the reference) are counted and skipped. Oracle: poses after optimize(max_iter=1) = pose [+] dx_ref (dense reduced normal equations assembled by "
    "vertex identity). non-trivial = at least one free vertex moves by more than 1e-6",
    "assumptions": [
        "e, J, Omega are taken from the edges themselves (C01/C02 own them); numpy dense solve/cond trusted",
        "tolerance 1e-9 x (1 + |dx| + translation scale) x max(1, cond/1e3)",
    ],
    "required_classes": ["information_reassigned", "iterations_inside_one_call", "large_graph", "far_apart", "shared_pose_object", "weak_information", "history", "parallel_edges", "edge_high_index_first", "mixed_dimensions", "two_or_more_fixed", "custom_unary", "custom_ternary", "ffp_true", "ffp_false", "ids_special", "edge_order_permuted", "isolated_fixed_vertex"],
    "bounds": {"quick": "n=2: m<=3; n=3: m<=2, vertex orders {identity, reversed, rotated}", "thorough": "n=2: m<=4; n=3: m<=3, all 6 vertex orders"},
}

ID_MAPS = [[7, -5, 1000], [2**40, 3, 2**63 - 1], [-1, -2, -3], [5, 0, -7]]


def large_specs(tier, seed):
    """beyond three vertices: sizes around powers of two, a star with many landmarks on one pose, two components with their own
    anchors, a hub of degree >= 4, long R^n chains (sorting / chunking / index arithmetic / sparse structure only show there)."""
    from .. import slamfam as SF

    out = []
    sizes = (4, 5, 8, 17, 33) if tier == "quick" else (4, 5, 7, 8, 9, 16, 17, 32, 33, 64)
    for kind in ("SE2", "SE3"):
        for n in sizes:
            for fam in SF.FAMILIES[kind][:2]:
                spec, _ = SF.make(fam, kind, n, "sin", "sin", 0.2 if kind == "SE2" else 0.1, 0.1 if kind == "SE2" else 0.05, 0.02, seed)
                out.append(("%s-%s-%d" % (fam, kind, n), spec))
    # star: one pose, many landmarks
    for kind, pk, d in (("SE2", "R2", 2), ("SE3", "R3", 3)):
        pose = F.vertex_pose(kind, 0, seed)
        vs = [{"id": 0, "kind": kind, "pose": pose, "fixed": True}]
        es = []
        for k in range(9):
            lm = [0.7 * math.cos(0.7 * k) * (k + 1), 0.5 * math.sin(1.1 * k) * (k + 1), 0.3 * k][:d]
            vs.append({"id": 10 + k, "kind": pk, "pose": lm, "fixed": False})
            es.append({"type": "lm", "ids": [0, 10 + k], "z": [0.1 * k, -0.2, 0.3][:d], "off": F._offset(kind, k), "om": A.spd(d, seed, "st%d" % k)})
        out.append(("star-" + kind, {"vertices": vs, "edges": es}))
    # two components, each with its own anchor; and a hub of degree 5
    for kind in ("R2", "SE2"):
        c = I.COMPACT[kind]
        vs = [{"id": i, "kind": kind, "pose": F.vertex_pose(kind, i, seed), "fixed": i in (0, 3)} for i in range(6)]
        es = [{"type": "odo", "ids": [a, b], "z": F._meas(kind, k, seed), "om": A.spd(c, seed, "tc%d" % k)} for k, (a, b) in enumerate([(0, 1), (1, 2), (2, 0), (3, 4), (5, 4), (3, 5)])]
        out.append(("two-components-" + kind, {"vertices": vs, "edges": es}))
        vs = [{"id": i, "kind": kind, "pose": F.vertex_pose(kind, i, seed), "fixed": i == 2} for i in range(6)]
        es = [{"type": "odo", "ids": ([0, j] if j % 2 else [j, 0]), "z": F._meas(kind, j, seed), "om": A.spd(c, seed, "hb%d" % j)} for j in range(1, 6)]
        out.append(("hub-" + kind, {"vertices": vs, "edges": es}))
    # dead-reckoned chains: every odometry measurement agrees EXACTLY (dyadic numbers) with the initial guess, one loop closure disagrees;
    # the interior vertices have an exactly zero gradient block and still have to move
    for kind in ("R2", "SE2"):
        c = I.COMPACT[kind]
        n = 6
        step = [0.5, 0.25] + ([0.0] if kind == "SE2" else [])
        vs = [{"id": i, "kind": kind, "pose": [0.5 * i, 0.25 * i] + ([0.0] if kind == "SE2" else []), "fixed": i == 0} for i in range(n)]
        es = [{"type": "odo", "ids": [i, i + 1], "z": list(step), "om": A.spd(c, seed, "ex%d" % (i % 3))} for i in range(n - 1)]
        es.append({"type": "odo", "ids": [0, n - 1], "z": [2.0, 1.5] + ([0.125] if kind == "SE2" else []), "om": A.spd(c, seed, "exl")})
        out.append(("exact-chain-" + kind, {"vertices": vs, "edges": es}))
    for kind in ("R2", "R3"):
        c = I.COMPACT[kind]
        n = 33
        vs = [{"id": i, "kind": kind, "pose": [math.sin(0.3 * i + a) * (1 + 0.1 * i) for a in range(c)], "fixed": i == 16} for i in range(n)]
        es = [{"type": "odo", "ids": [i, i + 1], "z": [0.1 * ((i + a) % 3) for a in range(c)], "om": A.spd(c, seed, "ch%d" % (i % 4))} for i in range(n - 1)]
        es += [{"type": "lm", "ids": [i + 5, i], "z": [0.2] * c, "off": [0.1] * c, "om": A.spd(c, seed, "cl%d" % (i % 3))} for i in range(0, n - 5, 4)]
        out.append(("chain33-" + kind, {"vertices": vs, "edges": es}))
    return out


def _m(n, tier):
    if n == 2:
        return 3 if tier == "quick" else 4
    return 2 if tier == "quick" else 3


def _vorders(n, tier):
    perms = [list(p) for p in itertools.permutations(range(n))]
    if n == 3 and tier == "quick":
        return [[0, 1, 2], [2, 1, 0], [1, 2, 0]]
    return perms


def chunks(tier, seed):
    out = [("L", 0, k, 0, 1) for k in range(len(large_specs(tier, seed)))]
    for n in (2, 3):
        for ti, types in enumerate(F.type_multisets(n)):
            nc = len(F.candidate_edges(types, seed))
            parts = 4 if (n == 3 and tier == "thorough") else 1
            for sub in ("A", "B", "C", "H") + (("P",) if len(set(types)) == 1 else ()):
                for part in range(parts):
                    out.append((sub, n, ti, part, parts))
    return out


def run_chunk(chunk, tier, seed):
    sub, n, ti, part, parts = chunk
    acc = Acc(ID, signature)
    if sub == "L":
        name, spec = large_specs(tier, seed)[ti]
        nv = len(spec["vertices"])
        for vo in ("as_listed", "reversed", "interleaved"):
            for ffp in (False, True):
                _do(acc, {"large": name, "tier": tier, "seed": seed, "vorder": vo, "ffp": ffp, "types": None, "edges": None, "fixed": None, "eorder": None, "ids": None})
        # the caller re-assigns every edge's information matrix after construction (re-weighting): the step uses the CURRENT matrices
        _do(acc, {"large": name, "tier": tier, "seed": seed, "vorder": "as_listed", "ffp": False, "types": None, "edges": None, "fixed": None, "eorder": None, "ids": None, "reweight": True})
        # EACH iteration of one optimize(tol=0, max_iter=k) call is the exact step (also the late ones, close to convergence)
        if nv <= 17:
            for k in (2, 3, 5, 8):
                _do(acc, {"large": name, "tier": tier, "seed": seed, "vorder": "as_listed", "ffp": False, "types": None, "edges": None, "fixed": None, "eorder": None, "ids": None, "iters": k})
        return acc
    types = F.type_multisets(n)[ti]
    cands = F.candidate_edges(types, seed)
    m = _m(n, tier)
    for k, ms in enumerate(F.edge_multisets(len(cands), m)):
        if k % parts != part:
            continue
        if sub == "A":
            for fixed in itertools.product((False, True), repeat=n):
                for ffp in (False, True):
                    for vo in _vorders(n, tier):
                        _do(acc, {"types": types, "seed": seed, "edges": ms, "fixed": list(fixed), "ffp": ffp, "vorder": vo, "eorder": None, "ids": None})
                    if len(set(ms)) < len(ms):
                        # the repeated edge is ONE object listed twice
                        _do(acc, {"types": types, "seed": seed, "edges": ms, "fixed": list(fixed), "ffp": ffp, "vorder": list(range(n)), "eorder": None, "ids": None, "same_object": True})
        elif sub == "B":
            if len(ms) < 2:
                continue
            fixed = [True] + [False] * (n - 1)
            for eo in itertools.permutations(range(len(ms))):
                if list(eo) == sorted(eo):
                    continue
                for vo in ([list(range(n)), list(range(n))[::-1]]):
                    _do(acc, {"types": types, "seed": seed, "edges": ms, "fixed": fixed, "ffp": False, "vorder": vo, "eorder": list(eo), "ids": None})
        elif sub == "P":
            # object reuse: every vertex is initialised from ONE shared pose object; each free vertex must still take its own step
            if len(ms) > 2:
                continue
            for fx in itertools.product((False, True), repeat=n):
                if any(fx):
                    _do(acc, {"types": types, "seed": seed, "edges": ms, "fixed": list(fx), "ffp": False, "vorder": list(range(n)), "eorder": None, "ids": None, "shared_pose_object": True})
        elif sub == "H":
            # history: one iteration with fixed set S1, flags changed to S2, the NEXT iteration must again be the exact GN step
            if len(ms) > 2:
                continue
            for f1 in itertools.product((False, True), repeat=n):
                for f2 in itertools.product((False, True), repeat=n):
                    if f1 != f2 and any(f1) and any(f2):
                        _do(acc, {"types": types, "seed": seed, "edges": ms, "fixed": list(f2), "ffp": False, "vorder": list(range(n)), "eorder": None, "ids": None, "first_fixed": list(f1)})
        else:
            fixed = [True] + [False] * (n - 1)
            for ids in ID_MAPS:
                for vo in _vorders(n, tier):
                    _do(acc, {"types": types, "seed": seed, "edges": ms, "fixed": fixed, "ffp": False, "vorder": vo, "eorder": None, "ids": ids[:n]})
                    # fix_first_pose must mean the first LISTED vertex whatever the ids are (no vertex pre-marked)
                    _do(acc, {"types": types, "seed": seed, "edges": ms, "fixed": [False] * n, "ffp": True, "vorder": vo, "eorder": None, "ids": ids[:n]})
            # far apart: exact steps of 1e7 and more (no clipping / step limiting)
            for fx in itertools.product((False, True), repeat=n):
                if any(fx):
                    _do(acc, {"types": types, "seed": seed, "edges": ms, "fixed": list(fx), "ffp": False, "vorder": list(range(n)), "eorder": None, "ids": None, "far": True})
            # weak information: the Gauss-Newton step does not depend on the scale of the information matrices
            for fx in itertools.product((False, True), repeat=n):
                if any(fx):
                    _do(acc, {"types": types, "seed": seed, "edges": ms, "fixed": list(fx), "ffp": False, "vorder": list(range(n)), "eorder": None, "ids": None, "oscale": 1e-9})
    return acc


def _do(acc, case):
    acc.evals += 1
    msgs, info = _eval(case)
    if info.get("excluded"):
        acc.exclude(info["excluded"])
        return
    acc.states += 1
    acc.traces += 1
    acc.transitions += 1
    for c in info.get("classes", ()):
        acc.cls(c)
    if info.get("moved"):
        acc.nontrivial += 1
    acc.ratio(info.get("ratio", 0.0), case if info.get("ratio", 0.0) > 1e-2 else None)
    if msgs:
        acc.violation(case, msgs)
    acc.sample(case, 1)


def eval_case(case):
    return _eval(case)[0]


def signature(case, msgs):
    _, info = _eval(case)
    return {"isolated_fixed_vertex": "isolated_fixed_vertex" in info.get("classes", ()), "nan": any("not finite" in m for m in msgs)}


def spec_of(case):
    if case.get("large"):
        import copy as _c0

        spec = _c0.deepcopy(dict(large_specs(case["tier"], case["seed"]))[case["large"]])
        vs = spec["vertices"]
        if case["vorder"] == "reversed":
            vs = vs[::-1]
        elif case["vorder"] == "interleaved":
            vs = vs[1::2] + vs[0::2]
        spec["vertices"] = vs
        spec["edges"] = spec["edges"][::2] + spec["edges"][1::2]
        return spec
    types = case["types"]
    spec = F.make_spec(types, case["seed"], case["edges"], case["fixed"], case["vorder"], case["eorder"], case["ids"])
    if case.get("far"):
        import copy as _c2

        spec = _c2.deepcopy(spec)
        for k, v in enumerate(spec["vertices"]):
            d = G.DIM[v["kind"]]
            v["pose"] = [x * 1e7 * (k + 1) + 3e6 for x in v["pose"][:d]] + v["pose"][d:]
    if case.get("oscale"):
        import copy as _c

        spec = _c.deepcopy(spec)
        for e in spec["edges"]:
            e["om"] = [[case["oscale"] * x for x in r] for r in e["om"]]
    return spec


def classes_of(case, spec, fixed_eff):
    if case.get("large"):
        return ["large_graph", "ffp_true" if case["ffp"] else "ffp_false"]
    cl = []
    ms = case["edges"]
    if len(set(ms)) < len(ms):
        cl.append("parallel_edges")
    order = {v["id"]: k for k, v in enumerate(spec["vertices"])}
    for e in spec["edges"]:
        pos = [order[i] for i in e["ids"]]
        if any(pos[a] > pos[a + 1] for a in range(len(pos) - 1)):
            cl.append("edge_high_index_first")
        if e["type"] == "prior":
            cl.append("custom_unary")
        if e["type"] == "tern":
            cl.append("custom_ternary")
    if len({I.COMPACT[v["kind"]] for v in spec["vertices"]}) > 1:
        cl.append("mixed_dimensions")
    if sum(fixed_eff) >= 2:
        cl.append("two_or_more_fixed")
    cl.append("ffp_true" if case["ffp"] else "ffp_false")
    if case["ids"]:
        cl.append("ids_special")
    if case["eorder"]:
        cl.append("edge_order_permuted")
    if case.get("oscale"):
        cl.append("weak_information")
    if case.get("far"):
        cl.append("far_apart")
    touched = {i for e in spec["edges"] for i in e["ids"]}
    if any(f and v["id"] not in touched for f, v in zip(fixed_eff, spec["vertices"])):
        cl.append("isolated_fixed_vertex")
    return sorted(set(cl))


def _eval(case):
    try:
        return _eval_inner(case)
    except Exception as ex:
        import traceback

        return ["raised %s: %s | %s" % (type(ex).__name__, ex, traceback.format_exc()[-500:])], {"ratio": float("inf"), "classes": []}


def _eval_iters(case, spec, g, verts, edges, fixed_eff):
    """k iterations inside ONE call vs the reference step iterated k times on a twin graph (updates through the library's boxplus)."""
    k = case["iters"]
    g2, verts2, edges2 = GB.build(spec)
    cond = 1.0
    dxn = 0.0
    for it in range(k):
        ref = gn.step(verts2, edges2, fixed_eff)
        if not ref["wellposed"]:
            return [], {"excluded": "reduced Hessian cond > 1e6 along the trajectory"}
        cond = max(cond, ref["cond"])
        for i, v in enumerate(verts2):
            if not fixed_eff[i]:
                dxn = max(dxn, float(np.max(np.abs(ref["dx"][i]))))
                v.pose = v.pose + ref["dx"][i]
    before = GB.snapshot(verts)
    GB.optimize(g, tol=0.0, max_iter=k, fix_first_pose=case["ffp"])
    after = GB.snapshot(verts)
    exp = GB.snapshot(verts2)
    msgs = []
    tsc = 1.0 + max(max(abs(x) for x in b[2][: G.DIM[b[1]]]) for b in before)
    tol = 1e-8 * (tsc + dxn) * max(1.0, cond / 1e3)
    ratio = 0.0
    for i in range(len(verts)):
        kind = before[i][1]
        if not all(np.isfinite(after[i][2])):
            msgs.append("vertex id %r not finite after optimize(tol=0, max_iter=%d)" % (before[i][0], k))
            ratio = float("inf")
            continue
        d = G.phys_diff(kind, after[i][2], exp[i][2])
        ratio = max(ratio, d / tol)
        if d > tol:
            msgs.append("vertex id %r (%s): after ONE optimize(tol=0, max_iter=%d) %r, but %d exact Gauss-Newton steps give %r (|diff| %.3g > %.3g)" % (before[i][0], kind, k, after[i][2], k, exp[i][2], d, tol))
    return msgs, {"ratio": ratio, "classes": classes_of(case, spec, fixed_eff) + ["iterations_inside_one_call"], "moved": dxn > 1e-6}


def _eval_inner(case):
    spec = spec_of(case)
    if case.get("same_object"):
        spec["repeat_objects"] = True
    if case.get("shared_pose_object"):
        p0 = list(spec["vertices"][0]["pose"])
        for v in spec["vertices"]:
            v["pose"] = list(p0)
    g, verts, edges = GB.build(spec)
    pre = []
    if case.get("reweight"):
        for k, e in enumerate(edges):
            e.information = (0.25 + 0.5 * (k % 4)) * np.array(e.information, dtype=float, copy=True) + 0.125 * np.eye(np.asarray(e.information).shape[0])
        pre = ["information_reassigned"]
    if case.get("shared_pose_object"):
        shared = verts[0].pose
        for v in verts:
            v.pose = shared
        pre = ["shared_pose_object"]
    if case.get("first_fixed"):
        # earlier call of the history, with another fixed set (list order = slot order here)
        for v, f in zip(verts, case["first_fixed"]):
            v.fixed = bool(f)
        r0 = gn.step(verts, edges, [bool(f) for f in case["first_fixed"]])
        if not r0["wellposed"]:
            return [], {"excluded": "first call of the history is ill-posed"}
        GB.optimize(g, max_iter=1, fix_first_pose=False)
        if not all(np.all(np.isfinite(np.asarray(v.pose))) for v in verts):
            return [], {"excluded": "first call of the history diverged"}
        for v, f in zip(verts, case["fixed"]):
            v.fixed = bool(f)
        pre = pre + ["history"]
    # the INTENDED flags (what the caller marked), not what the objects report back
    fixed_eff = [bool(v.get("fixed", False)) for v in spec["vertices"]]
    if case["ffp"]:
        fixed_eff[0] = True
    ref = gn.step(verts, edges, fixed_eff)
    if not ref["topo_ok"]:
        return [], {"excluded": "component without a fixed vertex"}
    if not ref["wellposed"]:
        return [], {"excluded": "reduced Hessian cond > 1e6"}
    if case.get("iters"):
        return _eval_iters(case, spec, g, verts, edges, fixed_eff)
    before = GB.snapshot(verts)
    exp = []
    dxn = 0.0
    for i, v in enumerate(verts):
        if fixed_eff[i]:
            exp.append(before[i][2])
        else:
            dx = ref["dx"][i]
            dxn = max(dxn, float(np.max(np.abs(dx))))
            exp.append(I.comps(v.pose + dx))
    GB.optimize(g, max_iter=1, fix_first_pose=case["ffp"])
    after = GB.snapshot(verts)
    msgs = []
    tsc = 1.0 + max(max(abs(x) for x in b[2][: G.DIM[b[1]]]) for b in before)
    tol = TOL * (tsc + dxn) * max(1.0, ref["cond"] / 1e3)
    ratio = 0.0
    for i in range(len(verts)):
        kind = before[i][1]
        got = after[i][2]
        if after[i][1] != kind:
            msgs.append("vertex id %r changed pose type %s -> %s" % (before[i][0], kind, after[i][1]))
            continue
        if not all(np.isfinite(got)):
            msgs.append("vertex id %r pose not finite after one iteration of a well-posed problem: %r" % (before[i][0], got))
            ratio = float("inf")
            continue
        if fixed_eff[i]:
            if got != before[i][2]:
                msgs.append("fixed vertex id %r moved: %r -> %r" % (before[i][0], before[i][2], got))
            continue
        d = G.phys_diff(kind, got, exp[i])
        ratio = max(ratio, d / tol)
        if d > tol:
            msgs.append("vertex id %r (%s): after optimize(max_iter=1) %r, Gauss-Newton reference step gives %r (|diff| %.3g > %.3g, cond %.3g)" % (before[i][0], kind, got, exp[i], d, tol, ref["cond"]))
    return msgs, {"ratio": ratio, "classes": classes_of(case, spec, fixed_eff) + pre, "moved": dxn > 1e-6}
