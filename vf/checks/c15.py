"""C15 - queries are pure; optimize changes only vertex poses (engine E2: BFS to fixpoint over the query alphabet)."""
import collections
import copy
import math
import os
import shutil
import tempfile

import numpy as np

from .. import alphabets as A
from .. import explore as X
from .. import families as F
from .. import gbuild as GB
from .. import impl as I
from ..runner import Acc

ID = "C15"

META = {
    "rule": "for each graph of the family: BFS over the state graph whose nodes are bitwise digests of EVERYTHING reachable from the Graph object (generic __dict__ walker: poses, estimates, "
    "information, offsets, ids, flags, list orders, caches) and whose transitions are ~35 + 14 n^2 queries (graph/edge/vertex/pose queries incl. the numerical-Jacobian fallback, "
    "exports, equals, every pose operator and Jacobian method on every ordered pose pair, copy-then-mutate, writing into the arrays returned by to_array / to_compact, holding returned values while the same queries run for the other edges / poses, p2=p; p2+=q) plus bounded environment steps (<=2 optimizer calls from {one iteration, one iteration with fix_first_pose, a converging run}, <=1 in-place user edit / rebinding of a pose). "
    "Graphs include vertices whose pose object IS an edge's measurement / offset object (object reuse). The search runs to FIXPOINT (no new state), so every interleaving of any length is covered. Invariants on every "
    "transition: observable snapshot bitwise unchanged by a query; a query's value equals the value on a freshly constructed twin of the same observable state (path independence / no hidden "
    "state); optimize changes nothing but poses of non-fixed vertices (+ first vertex's flag when asked) and does exactly what it does on a fresh twin (no hidden state between calls). non-trivial = transition whose query returns a non-constant value",
    "assumptions": ["observable state = poses, estimates, information, offsets, ids, fixed flags, list orders, parameters (bitwise); everything else reachable is cache and only refines state identity"],
    "required_classes": ["shared_objects", "converging_run_transition", "fixpoint_reached", "numeric_jacobian_query", "stored_plus_pi", "parallel_edges", "optimize_transition", "inplace_edit_transition", "export_query", "pose_operator_query"],
    "bounds": {"quick": "9 graphs (SE2, SE3, R2, R3, mixed worlds; stored angle +pi; w<0; parallel edges; numeric custom edges) x fixpoint", "thorough": "quick + every type multiset of F(3) with a spanning edge multiset (20 graphs) x 2 fixed choices"},
}


# ------------------------------------------------------------------------------------------ graph family
def specs(tier, seed):
    out = []
    q1 = A.unit(A.jit(seed, "Q1", [0.1, -0.2, 0.3, 0.9]))
    qn = [-x for x in A.unit([0.3, 0.1, -0.2, 0.9])]
    se2 = {
        "vertices": [
            {"id": 0, "kind": "SE2", "pose": [0.3, -0.8, A.ANG_PLUS_PI_SOURCE], "fixed": False},  # stored angle is exactly +pi
            {"id": 1, "kind": "SE2", "pose": [-1.1, 0.4, -3.1], "fixed": False},
            {"id": 2, "kind": "R2", "pose": [2.0, 1.5], "fixed": False},
        ],
        "edges": [
            {"type": "odo", "ids": [0, 1], "z": [0.9, -0.2, 1.3], "om": A.spd(3, seed, "a")},
            {"type": "odo", "ids": [0, 1], "z": [0.8, -0.1, 1.2], "om": A.spd(3, seed, "b")},
            {"type": "lm", "ids": [0, 2], "z": [0.4, 1.1], "off": [0.5, -0.25, 0.7], "om": A.spd(2, seed, "c")},
            {"type": "numprior", "ids": [1], "z": [0.1, 0.2, 0.3], "om": A.spd(3, seed, "d")},
            {"type": "numtern", "ids": [0, 1, 2], "z": [0.3, -0.2], "om": A.spd(2, seed, "e")},
        ],
    }
    out.append(("se2", se2))
    se2b = copy.deepcopy(se2)
    se2b["vertices"][0]["pose"][2] = 0.0
    se2b["vertices"][1]["fixed"] = True
    se2b["edges"] = [se2["edges"][0], {"type": "numodo", "ids": [1, 0], "z": [-0.5, 0.7, -3.0], "om": A.spd(3, seed, "f")}, {"type": "numlm", "ids": [1, 2], "z": [-0.3, 0.2], "off": [0.0, 0.0, 0.0], "om": A.spd(2, seed, "g")}]
    # an SE(2) landmark offset that is the identity only up to round-off (c.inverse + c): not expressible in .g2o, export must not touch it
    se2b["edges"].append({"type": "lm", "ids": [1, 2], "z": [0.1, 0.2], "off": [5.6e-17, -5.6e-17, 0.0], "om": A.spd(2, seed, "g2")})
    out.append(("se2b", se2b))
    se3 = {
        "vertices": [
            {"id": 10, "kind": "SE3", "pose": [0.5, -0.4, 1.2] + qn, "fixed": False},
            {"id": 4, "kind": "SE3", "pose": [-0.7, 0.9, 0.3] + q1, "fixed": False},
            {"id": 7, "kind": "R3", "pose": [1.0, -2.0, 0.5], "fixed": False},
        ],
        "edges": [
            {"type": "odo", "ids": [10, 4], "z": [0.2, 0.1, -0.4] + A.unit([0.2, 0.1, -0.3, 0.9]), "om": A.spd(6, seed, "h")},
            {"type": "odo", "ids": [4, 10], "z": [0.3, -0.6, 0.2] + qn, "om": A.spd(6, seed, "i")},
            {"type": "lm", "ids": [4, 7], "z": [0.5, 0.5, -1.0], "off": [0.1, 0.2, -0.1] + A.unit([0.3, -0.1, 0.2, 0.9]), "off_id": 3, "om": A.spd(3, seed, "j")},
            {"type": "numodo", "ids": [10, 4], "z": [0.2, 0.1, -0.4] + q1, "om": A.spd(6, seed, "k")},
            {"type": "prior", "ids": [7], "z": [0.1, 0.2, 0.3], "om": A.spd(3, seed, "l")},
        ],
    }
    out.append(("se3", se3))
    se3b = copy.deepcopy(se3)
    se3b["vertices"][2]["fixed"] = True
    se3b["edges"] = [se3["edges"][0], {"type": "numlm", "ids": [10, 7], "z": [0.1, 0.2, 0.3], "off": [0.0, 0.1, 0.2, -0.5, 0.5, -0.5, -0.5], "off_id": 1, "om": A.spd(3, seed, "m")}, {"type": "numprior", "ids": [4], "z": [0.1] * 6, "om": A.spd(6, seed, "n")}]
    out.append(("se3b", se3b))
    for kind, d in (("R2", 2), ("R3", 3)):
        z = [0.3, -0.1, 0.2][:d]
        rn = {
            "vertices": [{"id": i, "kind": kind, "pose": F.vertex_pose(kind, i, seed), "fixed": i == 2} for i in range(3)],
            "edges": [
                {"type": "odo", "ids": [0, 1], "z": z, "om": A.spd(d, seed, "o")},
                {"type": "lm", "ids": [1, 2], "z": z, "off": [0.2, 0.4, -0.1][:d], "om": A.spd(d, seed, "p")},
                {"type": "lm", "ids": [1, 2], "z": z, "off": [0.2, 0.4, -0.1][:d], "om": A.spd(d, seed, "q")},
                {"type": "numodo", "ids": [2, 0], "z": z, "om": A.spd(d, seed, "r")},
                {"type": "tern", "ids": [0, 1, 2], "z": [0.3, -0.2], "om": A.spd(2, seed, "s")},
            ],
        }
        out.append((kind.lower(), rn))
    mixed = {
        "vertices": [
            {"id": 3, "kind": "SE2", "pose": [0.3, -0.8, 3.1], "fixed": False},
            {"id": 1, "kind": "R2", "pose": [2.0, 1.5], "fixed": False},
            {"id": 2, "kind": "SE3", "pose": [0.5, -0.4, 1.2] + q1, "fixed": True},
            {"id": 0, "kind": "R3", "pose": [1.0, -2.0, 0.5], "fixed": False},
        ],
        "edges": [
            {"type": "lm", "ids": [3, 1], "z": [0.4, 1.1], "off": [0.5, -0.25, 0.7], "om": A.spd(2, seed, "t")},
            {"type": "lm", "ids": [2, 0], "z": [0.5, 0.5, -1.0], "off": [0.1, 0.2, -0.1] + A.unit([0.3, -0.1, 0.2, 0.9]), "off_id": 0, "om": A.spd(3, seed, "u")},
            {"type": "numtern", "ids": [3, 2, 0], "z": [0.3, -0.2], "om": A.spd(2, seed, "v")},
            {"type": "prior", "ids": [3], "z": [0.1, 0.2, 0.3], "om": A.spd(3, seed, "w")},
        ],
    }
    out.append(("mixed", mixed))
    # object reuse: a vertex's initial pose IS the measurement object of an edge / the offset object of a landmark edge
    shared2 = copy.deepcopy(se2b)
    shared2["share"] = [["vertex", 1, "estimate", 0], ["vertex", 0, "offset", 2]]
    shared2["vertices"][1]["fixed"] = False
    shared2["vertices"][0]["fixed"] = True
    shared2["vertices"][1]["pose"] = list(shared2["edges"][0]["z"])
    shared2["vertices"][0]["pose"] = list(shared2["edges"][2]["off"])
    out.append(("shared_se2", shared2))
    shared3 = copy.deepcopy(se3)
    shared3["share"] = [["vertex", 1, "estimate", 0]]
    shared3["vertices"][0]["fixed"] = True
    shared3["vertices"][1]["pose"] = list(shared3["edges"][0]["z"])
    out.append(("shared_se3", shared3))
    # an information matrix that is symmetric only up to round-off (as np.linalg.inv of a covariance gives), and a vertex no edge refers to
    asym = A.spd(2, seed, "y")
    asym = [[asym[0][0], math.nextafter(asym[0][1], math.inf)], [asym[1][0], asym[1][1]]]
    iso = {
        "vertices": [{"id": 0, "kind": "R2", "pose": [0.5, -0.25], "fixed": True}, {"id": 1, "kind": "R2", "pose": [1.5, 0.75], "fixed": False}, {"id": 2, "kind": "R2", "pose": [-2.0, 3.0], "fixed": False}],
        "edges": [{"type": "odo", "ids": [0, 1], "z": [0.9, 1.1], "om": asym}, {"type": "numodo", "ids": [1, 0], "z": [-1.0, -0.9], "om": asym}],
    }
    out.append(("iso", iso))
    single = {"vertices": [{"id": 5, "kind": "SE2", "pose": [1.0, 2.0, A.ANG_PLUS_PI_SOURCE], "fixed": False}], "edges": [{"type": "numprior", "ids": [5], "z": [0.5, 0.5, 0.5], "om": A.spd(3, seed, "x")}]}
    out.append(("single", single))
    if tier == "thorough":
        for ti, types in enumerate(F.type_multisets(3)):
            cands = F.candidate_edges(types, seed)
            for fixed in ([True, False, False], [False, False, True]):
                ms = None
                for m in F.edge_multisets(len(cands), 2):
                    t = set()
                    for k in m:
                        t.update(cands[k]["ids"])
                    if len(m) == 2 and t == {0, 1, 2}:
                        ms = m
                        break
                if ms is None:
                    continue
                sp = F.make_spec(types, seed, ms + [ms[0]], fixed, [2, 0, 1], None, None)
                # make the first edge numeric
                for e in sp["edges"][:1]:
                    if e["type"] in ("odo", "lm", "prior", "tern"):
                        e["type"] = "num" + e["type"]
                out.append(("F3-%d-%s" % (ti, "a" if fixed[0] else "b"), sp))
    return out


# ------------------------------------------------------------------------------------------ world / observable snapshot
class World:
    def __init__(self, spec):
        self.spec = spec
        self.g, self.verts, self.edges = GB.build({k: v for k, v in spec.items() if k != "share"})
        for what, vi, field, ei in spec.get("share", []):
            # the vertex's pose object is the very same object as the edge's measurement / offset
            if field == "estimate":
                self.verts[vi].pose = self.edges[ei].estimate
            else:
                self.verts[vi].pose = self.edges[ei].offset
        self.n_opt = 0
        self.n_edit = 0


def observable(w):
    """bitwise snapshot of everything the property calls state (NOT caches)."""
    vs = []
    for v in I.graph_vertices(w.g):
        vs.append((v.id, bool(v.fixed), type(v.pose).__name__, np.asarray(v.pose).tobytes()))
    es = []
    vidx = {id(v): k for k, v in enumerate(I.graph_vertices(w.g))}
    for e in I.graph_edges(w.g):
        est = e.estimate
        est_b = (type(est).__name__, np.asarray(est, dtype=float).tobytes())
        off = getattr(e, "offset", None)
        es.append(
            (
                type(e).__name__,
                tuple(e.vertex_ids),
                np.asarray(e.information).tobytes(),
                np.asarray(e.information).shape,
                est_b,
                None if off is None else (type(off).__name__, np.asarray(off).tobytes()),
                getattr(e, "offset_id", None),
                tuple(vidx.get(id(v), -1) for v in (e.vertices or [])),
            )
        )
    return (tuple(vs), tuple(es))


def obs_key(w):
    return X.digest(observable(w))


def twin(w):
    """a freshly constructed world in exactly the same observable state (bit-exact arrays and flags) and with the same
    aliasing between vertex poses and edge measurements / offsets as the world has NOW."""
    t = World(w.spec)
    for et, e in zip(t.edges, I.graph_edges(w.g)):
        if isinstance(et.estimate, np.ndarray):
            np.asarray(et.estimate)[...] = np.asarray(e.estimate)
        if getattr(et, "offset", None) is not None:
            np.asarray(et.offset)[...] = np.asarray(e.offset)
        # same numbers AND the same memory layout as the world's matrix (a product's rounding may depend on Fortran / C order;
        # the twin exists to expose hidden state, not summation order)
        et.information = np.array(np.asarray(e.information), copy=True, order="K")
    for k, (vt, v) in enumerate(zip(t.verts, I.graph_vertices(w.g))):
        still_shared = any(v.pose is e.estimate or v.pose is getattr(e, "offset", None) for e in I.graph_edges(w.g))
        twin_shared = any(vt.pose is e.estimate or vt.pose is getattr(e, "offset", None) for e in t.edges)
        if twin_shared and not still_shared:
            vt.pose = copy.deepcopy(v.pose)  # the world re-bound this pose since (e.g. optimize), the sharing is gone
        else:
            np.asarray(vt.pose)[...] = np.asarray(v.pose)
        vt.fixed = bool(v.fixed)
    return t


# ------------------------------------------------------------------------------------------ operation alphabet
POSE_UNARY = ["inverse", "copy", "to_array", "to_compact", "position", "orientation", "jacobian_boxplus", "jacobian_inverse", "copy_mutate", "box_small", "box_big", "to_array_scribble", "to_compact_scribble", "held", "add_identity_scribble", "box_zero_scribble", "sub_identity_scribble", "position_scribble", "identity_scribble"]
POSE_BINARY = [
    "add", "sub", "iadd",
    "jacobian_self_oplus_other_wrt_self", "jacobian_self_oplus_other_wrt_self_compact", "jacobian_self_oplus_other_wrt_other", "jacobian_self_oplus_other_wrt_other_compact",
    "jacobian_self_ominus_other_wrt_self", "jacobian_self_ominus_other_wrt_self_compact", "jacobian_self_ominus_other_wrt_other", "jacobian_self_ominus_other_wrt_other_compact",
    "jacobian_self_oplus_point_wrt_self", "jacobian_self_oplus_point_wrt_point", "equals",
]


def query_ops(w):
    ops = ["g.chi2", "g.equals", "g.to_g2o"]
    for i in range(len(w.edges)):
        for q in ("error", "chi2", "jac", "numjac", "cgh", "valid", "equals", "to_g2o", "jac_held"):
            ops.append("e%d.%s" % (i, q))
    n = len(w.verts)
    for j in range(n):
        ops.append("v%d.equals" % j)
        ops.append("v%d.to_g2o" % j)
        for u in POSE_UNARY:
            ops.append("p%d.%s" % (j, u))
        for k in range(n):
            for b in POSE_BINARY:
                ops.append("p%d.%s.p%d" % (j, b, k))
    return ops


def env_ops(w):
    ops = []
    if w.n_opt < 2:
        ops += ["opt1", "optF", "optC"]
    if w.n_edit < 1:
        ops += ["nudge", "rebind"]
    return ops


def _safe(f):
    try:
        with np.errstate(all="ignore"):
            return f()
    except Exception as ex:  # exceptions are values: they must be repeatable too
        return ("EXC", type(ex).__name__)


def apply_op(w, op, tmpdir):
    """returns the query's value (digestable)."""
    g = w.g
    if op in ("opt1", "optF", "optC"):
        w.n_opt += 1
        if op == "optC":  # a run that may converge inside the loop (leaves a 'current' linearization behind)
            r = _safe(lambda: GB.optimize(g, tol=1e-2, max_iter=6, fix_first_pose=False))
        else:
            r = _safe(lambda: GB.optimize(g, tol=0.0, max_iter=1, fix_first_pose=(op == "optF")))
        return ("report", getattr(r, "initial_chi2", r), getattr(r, "final_chi2", None), getattr(r, "num_iterations", None), getattr(r, "converged", None)) if not isinstance(r, tuple) else r
    if op == "nudge":
        w.n_edit += 1
        v = w.verts[min(1, len(w.verts) - 1)]
        v.pose[0] += 0.125  # a user edits a pose in place
        return None
    if op == "rebind":
        w.n_edit += 1
        v = w.verts[min(1, len(w.verts) - 1)]
        d = np.zeros(v.pose.COMPACT_DIMENSIONALITY)
        d[-1] = 0.0625
        v.pose = v.pose + d
        return None
    if op == "g.chi2":
        return _safe(g.calc_chi2)
    if op == "g.equals":
        return _safe(lambda: g.equals(g))
    if op == "g.to_g2o":
        path = os.path.join(tmpdir, "x.g2o")

        def f():
            g.to_g2o(path)
            with open(path) as fh:
                return fh.read()

        return _safe(f)
    head, rest = op.split(".", 1)
    idx = int(head[1:])
    if head[0] == "e":
        e = w.edges[idx]
        if rest == "error":
            return _safe(e.calc_error)
        if rest == "chi2":
            return _safe(e.calc_chi2)
        if rest == "jac":
            return _safe(e.calc_jacobians)
        if rest == "numjac":
            return _safe(lambda: I.BaseEdge.calc_jacobians(e))
        if rest == "cgh":
            return _safe(e.calc_chi2_gradient_hessian)
        if rest == "valid":
            return _safe(e.is_valid)
        if rest == "jac_held":
            # values handed out stay what they were while the same queries are evaluated for the OTHER edges and poses
            def f():
                held = [e.calc_error()] + list(e.calc_jacobians())
                keep = [np.array(h, copy=True) for h in held]
                for e2 in w.edges:
                    if e2 is not e:
                        e2.calc_error()
                        e2.calc_jacobians()
                        e2.calc_chi2_gradient_hessian()
                g.calc_chi2()
                ok = all(np.asarray(h).shape == k.shape and np.array_equal(np.asarray(h), k, equal_nan=True) for h, k in zip(held, keep))
                return ("held_unchanged", bool(ok), keep)
            return _safe(f)
        if rest == "equals":
            return _safe(lambda: e.equals(e))
        if rest == "to_g2o":
            return _safe(e.to_g2o)
    if head[0] == "v":
        v = w.verts[idx]
        if rest == "equals":
            return _safe(lambda: v.equals(v))
        if rest == "to_g2o":
            return _safe(v.to_g2o)
    if head[0] == "p":
        p = w.verts[idx].pose
        parts = rest.split(".")
        if len(parts) == 1:
            u = parts[0]
            if u == "copy_mutate":
                def f():
                    c = p.copy()
                    c[0] += 1.0
                    return c
                return _safe(f)
            if u in ("box_small", "box_big"):
                # pose [+] increment array: neither operand may be touched (also for increments outside the unit ball)
                def f():
                    c = p.COMPACT_DIMENSIONALITY
                    d = np.array([0.1, -0.2, 0.3, 0.9, -0.8, 0.7][:c]) * (0.1 if u == "box_small" else 1.0)
                    keep = d.copy()
                    r = p + d
                    return ("operand_unchanged", bool(np.array_equal(d, keep)), r)
                return _safe(f)
            if u in ("to_array_scribble", "to_compact_scribble"):
                # the arrays handed out by to_array / to_compact are copies: a caller may write into them
                def f():
                    r = getattr(p, u[: -len("_scribble")])()
                    keep = np.array(r, copy=True)
                    r[...] = r + 1.5
                    return keep
                return _safe(f)
            if u in ("add_identity_scribble", "box_zero_scribble", "sub_identity_scribble"):
                # the result of an operator is a new pose even when the other operand is neutral: writing into it leaves the operand alone
                def f():
                    if u == "box_zero_scribble":
                        r = p + np.zeros(p.COMPACT_DIMENSIONALITY)
                    elif u == "add_identity_scribble":
                        r = p + type(p).identity()
                    else:
                        r = p - type(p).identity()
                    keep = np.array(r, copy=True)
                    r[0] += 2.5
                    return keep
                return _safe(f)
            if u == "position_scribble":
                # a caller finishes its computation IN the array handed out by .position (err = p.position; err -= z)
                def f():
                    r = p.position
                    keep = np.array(r, copy=True)
                    r -= 0.75
                    return keep
                return _safe(f)
            if u == "identity_scribble":
                # identity() hands out independent poses: writing into one does not change what the next call returns
                def f():
                    from ..ref import geom as _G

                    ref_ = np.array(_G.identity(I.kind_of(p)), dtype=float)
                    a_ = type(p).identity()
                    a_[0] = 0.5
                    b_ = type(p).identity()
                    ok_ = bool(np.array_equal(np.asarray(b_, dtype=float), ref_))
                    if b_ is a_ or not ok_:
                        try:
                            np.asarray(b_)[...] = ref_  # leave the process as we found it
                        except Exception:
                            pass
                    return ("held_unchanged", ok_, ref_)
                return _safe(f)
            if u == "held":
                def f():
                    names = ["jacobian_boxplus", "jacobian_inverse", "to_array", "to_compact", "copy"]
                    held = [getattr(p, n)() for n in names] + [p.inverse, p + p, p - p]
                    keep = [np.array(h, copy=True) for h in held]
                    for v2 in w.verts:
                        q = v2.pose
                        if q is p:
                            continue
                        for n in names:
                            getattr(q, n)()
                        q.inverse
                        q + q
                        q - q
                    ok = all(np.asarray(h).shape == k.shape and np.array_equal(np.asarray(h), k, equal_nan=True) for h, k in zip(held, keep))
                    return ("held_unchanged", bool(ok), keep)
                return _safe(f)
            if u in ("inverse", "position", "orientation"):
                return _safe(lambda: getattr(p, u))
            return _safe(lambda: getattr(p, u)())
        b, other = parts[0], w.verts[int(parts[1][1:])].pose
        if b == "add":
            return _safe(lambda: p + other)
        if b == "sub":
            return _safe(lambda: p - other)
        if b == "iadd":
            def f():
                p2 = p
                p2 += other
                return p2
            return _safe(f)
        return _safe(lambda: getattr(p, b)(other))
    raise ValueError(op)


# ------------------------------------------------------------------------------------------ check
def chunks(tier, seed):
    # two explorations per graph (they run in parallel): "G" = environment steps + graph/edge/vertex queries, "P" = environment
    # steps + pose operators and pose Jacobian methods.  Each runs to its own fixpoint.
    return [("g", i, part) for i in range(len(specs(tier, seed))) for part in ("G", "P")]


def run_chunk(chunk, tier, seed):
    _, i, part = chunk
    acc = Acc(ID, signature)
    name, spec = specs(tier, seed)[i]
    res = explore_graph(spec, name, seed, part)
    acc.evals += 1
    acc.states += res["states"]
    acc.transitions += res["transitions"]
    acc.traces += res["twin_compared"]
    acc.nontrivial += res["nontrivial"]
    for c in res["classes"]:
        acc.cls(c)
    acc.outcome("obs_states=%d cache_states=%d" % (res["obs_states"], res["states"]))
    acc.extra["max_depth"] = max(acc.extra.get("max_depth", 0), res["depth"])
    for hist, msgs in res["violations"][:10]:
        acc.violation({"graph": name, "tier": tier, "seed": seed, "history": hist, "part": part}, msgs)
    acc.sample({"graph": name, "history_example": res["example"], "states": res["states"], "transitions": res["transitions"]}, 2)
    return acc


def signature(case, msgs):
    return {"graph": case.get("graph"), "op": (case.get("history") or ["?"])[-1].split(".")[-1]}


def eval_case(case):
    """replay: rebuild the graph, apply the history on fresh objects, evaluate the last transition's invariants."""
    spec = dict(specs(case["tier"], case["seed"]))[case["graph"]]
    tmp = tempfile.mkdtemp(prefix="vf-c15-")
    try:
        w = World(spec)
        for op in case["history"][:-1]:
            apply_op(w, op, tmp)
        return check_transition(w, case["history"][-1], tmp, {})[0]
    finally:
        shutil.rmtree(tmp, ignore_errors=True)


def _close_bytes(a, b, rel=1e-12):
    if a == b:
        return True
    x, y = np.frombuffer(a), np.frombuffer(b)
    if x.shape != y.shape:
        return False
    with np.errstate(all="ignore"):
        return bool(np.all((x == y) | (np.isnan(x) & np.isnan(y)) | (np.abs(x - y) <= rel * np.maximum(np.abs(x), np.abs(y)))))


def _close_report(a, b, rel=1e-12):
    if type(a) != type(b) or len(a) != len(b):
        return False
    for x, y in zip(a, b):
        if isinstance(x, float) or isinstance(y, float) or hasattr(x, "dtype"):
            try:
                x, y = float(x), float(y)
            except (TypeError, ValueError):
                return x is y
            if not (x == y or (x != x and y != y) or abs(x - y) <= rel * max(abs(x), abs(y))):
                return False
        elif x != y:
            return False
    return True


def check_transition(base, op, tmp, table):
    """apply op on a deep copy of base; returns (msgs, next_world, info)."""
    msgs = []
    nxt = copy.deepcopy(base)
    obs0 = observable(base)
    ret = apply_op(nxt, op, tmp)
    obs1 = observable(nxt)
    info = {"twin": 0}
    if op in ("opt1", "optF", "optC"):
        # no hidden state: the run must do exactly what it does on a freshly constructed twin of the same observable state
        t = twin(base)
        rt = apply_op(t, op, tmp)
        info["twin"] = 1
        ot = observable(t)
        same = len(ot[0]) == len(obs1[0]) and all(_close_bytes(a[3], b[3]) and a[:3] == b[:3] for a, b in zip(ot[0], obs1[0]))
        if not same or not _close_report(ret, rt):
            msgs.append("%s after this history gives a different result than on a freshly constructed graph in the same observable state (hidden state between calls): report %r vs %r" % (op, ret, rt))
        flags0 = [v[1] for v in obs0[0]]
        exp_fixed = list(flags0)
        if op == "optF":
            exp_fixed[0] = True
        for k, (a, b) in enumerate(zip(obs0[0], obs1[0])):
            if a[0] != b[0] or a[2] != b[2]:
                msgs.append("%s changed id/type of vertex #%d" % (op, k))
            if b[1] != exp_fixed[k]:
                msgs.append("%s: fixed flag of vertex #%d is %s, expected %s" % (op, k, b[1], exp_fixed[k]))
            if exp_fixed[k] and a[3] != b[3]:
                msgs.append("%s moved fixed vertex #%d (bitwise)" % (op, k))
        if obs0[1] != obs1[1]:
            msgs.append("%s changed an edge (measurement / information / offset / ids / binding)" % op)
        if len(obs0[0]) != len(obs1[0]):
            msgs.append("%s changed the vertex list" % op)
    elif op in ("nudge", "rebind"):
        pass
    else:
        if obs0 != obs1:
            what = []
            for k, (a, b) in enumerate(zip(obs0[0], obs1[0])):
                if a != b:
                    what.append("vertex #%d %s -> %s" % (k, np.frombuffer(a[3]).tolist(), np.frombuffer(b[3]).tolist()) if a[3] != b[3] else "vertex #%d id/flag/type" % k)
            for k, (a, b) in enumerate(zip(obs0[1], obs1[1])):
                if a != b:
                    what.append("edge #%d" % k)
            msgs.append("query %s changed observable state: %s" % (op, "; ".join(what) or "list structure"))
        if isinstance(ret, tuple) and len(ret) == 3 and ret[0] == "operand_unchanged" and not ret[1]:
            msgs.append("query %s mutated its increment operand" % op)
        if isinstance(ret, tuple) and len(ret) == 3 and ret[0] == "held_unchanged" and not ret[1]:
            msgs.append("query %s: values returned earlier changed while the same queries were evaluated for other edges / poses (shared result buffer)" % op)
        # path independence: same value as on a freshly constructed twin of the same observable state
        key = (X.digest(obs0), op)
        vd = X.value_digest(ret)
        if key not in table:
            t = twin(base)
            table[key] = (X.value_digest(apply_op(t, op, tmp)), "fresh twin")
            info["twin"] = 1
        if table[key][0] != vd:
            msgs.append("query %s returned a value that differs from the value on a freshly constructed graph in the same observable state (hidden state / not repeatable)" % op)
        info["const"] = ret is None or isinstance(ret, (bool, str))
    return msgs, nxt, info


def explore_graph(spec, name, seed, part="GP"):
    tmp = tempfile.mkdtemp(prefix="vf-c15-")
    try:
        root = World(spec)
        seen = {X.digest(root): []}
        frontier = collections.deque([(root, [])])
        table = {}
        violations = []
        transitions = 0
        twin_compared = 0
        nontrivial = 0
        depth = 0
        obs_states = {obs_key(root)}
        classes = set()
        if any(v["kind"] == "SE2" and v["pose"][2] == A.ANG_PLUS_PI_SOURCE for v in spec["vertices"]):
            classes.add("stored_plus_pi")
        ids = [tuple(e["ids"]) for e in spec["edges"]]
        if len(set(ids)) < len(ids):
            classes.add("parallel_edges")
        if spec.get("share"):
            classes.add("shared_objects")
        example = []
        capped = False
        while frontier:
            base, hist = frontier.popleft()
            qops = [o for o in query_ops(base) if (o[0] == "p") == ("P" in part) or part == "GP"]
            for op in qops + env_ops(base):
                msgs, nxt, info = check_transition(base, op, tmp, table)
                transitions += 1
                twin_compared += info.get("twin", 0)
                if not info.get("const", True):
                    nontrivial += 1
                if "numjac" in op:
                    classes.add("numeric_jacobian_query")
                if op.startswith("opt"):
                    classes.add("optimize_transition")
                if op == "optC":
                    classes.add("converging_run_transition")
                if op in ("nudge", "rebind"):
                    classes.add("inplace_edit_transition")
                if "to_g2o" in op:
                    classes.add("export_query")
                if op.startswith("p") and ".add." in op:
                    classes.add("pose_operator_query")
                if msgs:
                    violations.append((hist + [op], msgs))
                    continue  # do not explore beyond a violating transition
                k = X.digest(nxt)
                if k not in seen:
                    if len(seen) >= 400:
                        capped = True
                        continue
                    seen[k] = hist + [op]
                    frontier.append((nxt, hist + [op]))
                    depth = max(depth, len(hist) + 1)
                    obs_states.add(obs_key(nxt))
                    example = hist + [op]
        if not capped:
            classes.add("fixpoint_reached")
        return {"states": len(seen), "obs_states": len(obs_states), "transitions": transitions, "twin_compared": twin_compared, "nontrivial": nontrivial, "depth": depth, "violations": violations, "classes": sorted(classes), "example": example}
    finally:
        shutil.rmtree(tmp, ignore_errors=True)
