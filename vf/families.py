"""Graph-shape families shared by C03 / C06 / C07 / C08 / C12 / C15 (DESIGN 4 C03).

F(n, m): n vertices with every multiset of pose types from {R2, SE2, R3, SE3}; candidate edges = all type-correct
odometry and landmark edges on every ORDERED vertex pair (so both list orders occur) + a custom unary prior per
vertex + (n = 3) two custom ternary edges; every multiset of 1..m candidate edges (duplicates = parallel edges).
Numeric content comes from a deterministic value pool indexed by (vertex slot, candidate edge index).
"""
import itertools

from . import alphabets as A
from . import impl as I

LANDMARK_OK = {("SE2", "R2"), ("SE3", "R3"), ("R2", "R2"), ("R3", "R3")}
KINDS = ("R2", "SE2", "R3", "SE3")


def type_multisets(n):
    return [list(t) for t in itertools.combinations_with_replacement(KINDS, n)]


def vertex_pose(kind, slot, seed):
    g1 = A.unit(A.jit(seed, "Q1", [0.1, -0.2, 0.3, 0.9]))
    g2 = A.unit(A.jit(seed, "Q2", [0.6, -0.3, 0.5, -0.2]))
    q180 = A.unit(A.jit(seed, "Q180", [2.0, -3.0, 6.0]) + [0.0])
    pool = {
        "R2": [[2.0, 1.5], [-0.6, 0.2], [0.9, -1.7], [0.1, 0.3]],
        "R3": [[1.0, -2.0, 0.5], [0.1, 0.2, -0.3], [-1.4, 0.6, 0.8], [0.4, 0.4, 0.1]],
        "SE2": [[0.3, -0.8, 2.9], [-1.1, 0.4, -2.2], [2.0, 1.5, 0.6], [0.5, 0.5, -0.4]],
        "SE3": [[0.5, -0.4, 1.2] + g1, [-0.7, 0.9, 0.3] + g2, [1.1, 0.2, -0.6] + q180, [0.2, -0.3, 0.4, -0.5, 0.5, -0.5, -0.5]],
    }
    c = pool[kind][slot % 4]
    if seed:
        d = 2 if kind in ("R2", "SE2") else 3
        c = A.jit(seed, "vp%s%d" % (kind, slot), c[:d], rel=0.1) + c[d:]
    return list(c)


def _meas(kind, idx, seed):
    """generic measurement of a pose kind for candidate-edge index idx."""
    base = {
        "R2": [0.3 + 0.1 * idx, -0.1 - 0.05 * idx],
        "R3": [0.1 + 0.1 * idx, 0.1, -0.2 + 0.05 * idx],
        "SE2": [0.9 - 0.2 * idx, -0.2 + 0.1 * idx, 1.3 - 0.9 * idx],
        "SE3": [0.2, 0.1 * idx, -0.4] + A.unit([0.2 - 0.1 * idx, 0.1, -0.3, 0.9 if idx % 2 == 0 else -0.8]),
    }[kind]
    return base


def _offset(kind, idx):
    return {
        "R2": [0.2, 0.4],
        "R3": [-0.2, 0.1, 0.3],
        "SE2": [0.5, -0.25, 0.7 - 0.3 * idx],
        "SE3": [0.1, 0.2, -0.1] + A.unit([0.3, -0.1, 0.2 + 0.1 * idx, 0.9]),
    }[kind]


def candidate_edges(types, seed, custom=True):
    """list of edge specs over vertex ids 0..n-1 (ids are remapped later)."""
    n = len(types)
    out = []
    for i in range(n):
        for j in range(n):
            if i == j:
                continue
            k = len(out)
            if types[i] == types[j]:
                c = I.COMPACT[types[i]]
                out.append({"type": "odo", "ids": [i, j], "z": _meas(types[i], k, seed), "om": A.spd(c, seed, "e%d" % k)})
            if (types[i], types[j]) in LANDMARK_OK:
                k = len(out)
                c = I.COMPACT[types[j]]
                out.append({"type": "lm", "ids": [i, j], "z": _meas(types[j], k, seed), "off": _offset(types[i], k), "om": A.spd(c, seed, "e%d" % k)})
    if custom:
        for i in range(n):
            k = len(out)
            c = I.COMPACT[types[i]]
            tgt = [0.1 * (k + 1) * ((-1) ** r) for r in range(c)]
            out.append({"type": "prior", "ids": [i], "z": tgt, "om": A.spd(c, seed, "e%d" % k)})
        if n == 3:
            out.append({"type": "tern", "ids": [0, 1, 2], "z": [0.3, -0.2], "om": A.spd(2, seed, "t1")})
            out.append({"type": "tern", "ids": [2, 0, 1], "z": [-0.1, 0.4], "om": A.spd(2, seed, "t2")})
    return out


def edge_multisets(ncand, m):
    for k in range(1, m + 1):
        for ms in itertools.combinations_with_replacement(range(ncand), k):
            yield list(ms)


def make_spec(types, seed, edge_idx, fixed, vorder=None, eorder=None, ids=None, cands=None):
    """types: list of kinds (slot order); edge_idx: indices into candidate_edges; fixed: list of bool (slot order);
    vorder: permutation of slots giving the graph's vertex list order; ids: id per slot."""
    n = len(types)
    cands = cands if cands is not None else candidate_edges(types, seed)
    ids = ids or list(range(n))
    vorder = vorder or list(range(n))
    verts = [{"id": ids[s], "kind": types[s], "pose": vertex_pose(types[s], s, seed), "fixed": bool(fixed[s])} for s in vorder]
    es = []
    for k in edge_idx:
        e = dict(cands[k])
        e["ids"] = [ids[s] for s in e["ids"]]
        es.append(e)
    if eorder:
        es = [es[k] for k in eorder]
    return {"vertices": verts, "edges": es}
