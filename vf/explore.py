"""E2 - explicit-state explorer over the real objects.

A state IS the operation history that reaches it: build(history) constructs fresh real objects and replays
the operations (no aliasing between executions).  canon(state) is a bitwise digest of everything reachable
from the objects, obtained by a generic walker over __dict__s, so newly added attributes are included
automatically and two states merge only if the objects are indistinguishable (hence have the same futures).
"""
import collections
import hashlib
import struct

import numpy as np

try:
    import scipy.sparse as sp
except Exception:  # pragma: no cover
    sp = None


def digest(obj, skip_attrs=()):
    """Bitwise digest of everything reachable from obj.  Shared objects / cycles are encoded by first-visit index."""
    h = hashlib.sha1()
    memo = {}

    def put(b):
        h.update(b)

    def walk(o):
        if o is None:
            put(b"N")
        elif isinstance(o, bool):
            put(b"B1" if o else b"B0")
        elif isinstance(o, int):
            put(b"I" + str(o).encode())
        elif isinstance(o, float):
            put(b"F" + struct.pack("<d", o))
        elif isinstance(o, str):
            put(b"S" + o.encode())
        elif isinstance(o, bytes):
            put(b"Y" + o)
        elif isinstance(o, np.generic):
            put(b"G" + o.dtype.str.encode() + o.tobytes())
        elif isinstance(o, np.ndarray):
            if id(o) in memo:
                put(b"R" + str(memo[id(o)]).encode())
                return
            memo[id(o)] = len(memo)
            put(b"A" + type(o).__name__.encode() + o.dtype.str.encode() + str(o.shape).encode())
            put(np.ascontiguousarray(o).tobytes() if o.dtype != object else repr(o.tolist()).encode())
        elif sp is not None and sp.issparse(o):
            c = o.tocoo()
            order = np.lexsort((c.col, c.row))
            put(b"P" + str(c.shape).encode() + c.row[order].tobytes() + c.col[order].tobytes() + np.asarray(c.data)[order].tobytes())
        elif isinstance(o, (list, tuple)):
            put(b"L" if isinstance(o, list) else b"T")
            put(str(len(o)).encode())
            for x in o:
                walk(x)
        elif isinstance(o, (set, frozenset)):
            put(b"E")
            for x in sorted(o, key=repr):
                walk(x)
        elif isinstance(o, dict):
            put(b"D" + type(o).__name__.encode() + str(len(o)).encode())
            for k, v in o.items():
                walk(k)
                walk(v)
        elif isinstance(o, type) or callable(o) and not hasattr(o, "__dict__"):
            put(b"C" + getattr(o, "__qualname__", repr(o)).encode())
        elif hasattr(o, "__dict__"):
            if id(o) in memo:
                put(b"R" + str(memo[id(o)]).encode())
                return
            memo[id(o)] = len(memo)
            put(b"O" + type(o).__qualname__.encode())
            for k, v in vars(o).items():
                if k in skip_attrs:
                    continue
                put(b"K" + k.encode())
                walk(v)
        else:
            put(b"?" + repr(o).encode())

    walk(obj)
    return h.hexdigest()


def value_digest(v):
    """digest of a query's return value (exceptions are values too)."""
    return digest(v)


class Explorer:
    """BFS over histories.  ops(state_obj, hist) -> iterable of op names enabled in that state;
    build(hist) -> state object;  apply is done inside build (replay).  on_transition(prev_hist, op, prev_obj, next_obj, ret) -> msgs."""

    def __init__(self, build, enabled, canon, on_transition, max_states=5000):
        self.build = build
        self.enabled = enabled
        self.canon = canon
        self.on_transition = on_transition
        self.max_states = max_states
        self.states = 0
        self.transitions = 0
        self.max_depth = 0
        self.capped = False
        self.violations = []

    def run(self, roots):
        seen = {}
        frontier = collections.deque()
        for r in roots:
            obj = self.build(r)
            k = self.canon(obj)
            if k not in seen:
                seen[k] = list(r)
                frontier.append(list(r))
        while frontier:
            hist = frontier.popleft()
            base = self.build(hist)
            for op in self.enabled(base, hist):
                prev = self.build(hist)  # fresh objects for every transition: no aliasing between executions
                nxt, ret = self.build(hist + [op], return_last=True, start=prev, start_len=len(hist))
                self.transitions += 1
                msgs = self.on_transition(hist, op, base, nxt, ret)
                if msgs:
                    self.violations.append((hist + [op], msgs))
                k = self.canon(nxt)
                if k not in seen:
                    if len(seen) >= self.max_states:
                        self.capped = True
                        continue
                    seen[k] = hist + [op]
                    frontier.append(hist + [op])
                    self.max_depth = max(self.max_depth, len(hist) + 1)
        self.states = len(seen)
        return seen
