"""Runner: enumerates a check's chunks on a worker pool, aggregates coverage, re-evaluates failures,
matches known findings, writes evidence and prints the interface lines.

A check module provides
    ID, TITLE, META (dict: rule, assumptions, required_classes, bounds(tier) ...)
    chunks(tier, seed)            -> list of picklable chunk descriptors (the partition of the space)
    run_chunk(chunk, tier, seed)  -> Acc (see below) -- enumerates every case of that chunk
    eval_case(case)               -> list of violation messages for ONE plain-data case (replay entry point)
    signature(case, msgs)         -> dict of features used to match known_findings.json (optional)
"""
import hashlib
import json
import math
import multiprocessing as mp
import os
import sys
import time
import traceback

HERE = os.path.dirname(os.path.dirname(os.path.abspath(__file__)))
EVIDENCE_DIR = os.path.join(HERE, "evidence")
REPLAY_DIR = os.path.join(HERE, "replays")
KNOWN_FINDINGS = os.path.join(HERE, "known_findings.json")

MAX_VIOL_PER_CHUNK = 25
MAX_VIOL_REPORTED = 40


class Acc:
    """Per-chunk (and aggregated) coverage accumulator."""

    def __init__(self, pid=None, sigf=None):
        self.pid = pid
        self.sigf = sigf
        self.known_hits = {}  # known-finding id -> count
        self.known_examples = {}  # known-finding id -> first matching case
        self.evals = 0  # cases evaluated
        self.nontrivial = 0  # distinct non-trivial cases (chunks partition the space => additive)
        self.states = 0
        self.transitions = 0
        self.traces = 0
        self.classes = {}
        self.outcomes = {}
        self.excluded = {}
        self.max_ratio = 0.0
        self.max_ratio_case = None
        self.violations = []  # list of dict(case=..., msgs=[...])
        self.n_violations = 0
        self.samples = []
        self.extra = {}

    def cls(self, name, n=1):
        self.classes[name] = self.classes.get(name, 0) + n

    def outcome(self, name, n=1):
        name = str(name)
        self.outcomes[name] = self.outcomes.get(name, 0) + n

    def exclude(self, rule, n=1):
        self.excluded[rule] = self.excluded.get(rule, 0) + n

    def ratio(self, r, case=None):
        if r != r:
            r = float("inf")
        if r > self.max_ratio:
            self.max_ratio = r
            self.max_ratio_case = case

    def violation(self, case, msgs):
        msgs = list(msgs)
        if self.pid is not None and self.sigf is not None:
            k = match_known(self.pid, self.sigf(case, msgs), load_known())
            if k is not None:
                self.known_hits[k["id"]] = self.known_hits.get(k["id"], 0) + 1
                self.known_examples.setdefault(k["id"], {"case": case, "msgs": msgs[:6]})
                return
        self.n_violations += 1
        if len(self.violations) < MAX_VIOL_PER_CHUNK:
            self.violations.append({"case": case, "msgs": list(msgs)[:6]})

    def sample(self, case, limit=2):
        if len(self.samples) < limit:
            self.samples.append(case)

    def merge(self, o):
        self.evals += o.evals
        self.nontrivial += o.nontrivial
        self.states += o.states
        self.transitions += o.transitions
        self.traces += o.traces
        for k, v in o.classes.items():
            self.classes[k] = self.classes.get(k, 0) + v
        for k, v in o.outcomes.items():
            self.outcomes[k] = self.outcomes.get(k, 0) + v
        for k, v in o.excluded.items():
            self.excluded[k] = self.excluded.get(k, 0) + v
        if o.max_ratio > self.max_ratio:
            self.max_ratio = o.max_ratio
            self.max_ratio_case = o.max_ratio_case
        for k, v in o.known_hits.items():
            self.known_hits[k] = self.known_hits.get(k, 0) + v
        for k, v in o.known_examples.items():
            self.known_examples.setdefault(k, v)
        self.n_violations += o.n_violations
        for v in o.violations:
            if len(self.violations) < 400:
                self.violations.append(v)
        for s in o.samples:
            if len(self.samples) < 5:
                self.samples.append(s)
        for k, v in o.extra.items():
            if isinstance(v, (int, float)) and isinstance(self.extra.get(k, 0), (int, float)):
                self.extra[k] = self.extra.get(k, 0) + v
            else:
                self.extra[k] = v


def jdefault(o):
    try:
        import numpy as np

        if isinstance(o, np.generic):
            return o.item()
        if isinstance(o, np.ndarray):
            return o.tolist()
    except Exception:
        pass
    if isinstance(o, (set, frozenset, tuple)):
        return list(o)
    return repr(o)


def jdump(obj, **kw):
    return json.dumps(obj, default=jdefault, **kw)


def case_hash(case):
    return hashlib.sha1(jdump(case, sort_keys=True).encode()).hexdigest()[:16]


_G = {}


def _worker(args):
    modname, chunk, tier, seed = args
    try:
        mod = sys.modules.get(modname) or __import__(modname, fromlist=["x"])
        t0 = time.time()
        acc = mod.run_chunk(chunk, tier, seed)
        acc.extra["_cpu_s"] = time.time() - t0
        return ("ok", acc)
    except BaseException:
        return ("err", "chunk %r: %s" % (chunk, traceback.format_exc()))


_KNOWN_CACHE = None


def load_known():
    global _KNOWN_CACHE
    if _KNOWN_CACHE is None:
        try:
            with open(KNOWN_FINDINGS) as f:
                _KNOWN_CACHE = json.load(f).get("findings", [])
        except FileNotFoundError:
            _KNOWN_CACHE = []
    return _KNOWN_CACHE


def match_known(pid, sig, known):
    """A known entry matches when every key of its 'match' dict equals the signature's value."""
    for k in known:
        if k.get("property") != pid or k.get("status") != "known":
            continue
        m = k.get("match") or {}
        if m and all(sig.get(a) == b for a, b in m.items()):
            return k
    return None


def _alphabet_summary(tier, seed):
    """sizes and members of the shared finite alphabets for this tier/seed (check-specific alphabets are described in 'rule')."""
    try:
        from . import alphabets as A

        return {
            "translations_2d": A.T(2, tier, seed),
            "translations_3d": A.T(3, tier, seed),
            "angles": A.ANG(tier, seed),
            "unit_quaternions": A.Q(tier, seed),
            "n_poses": {k: len(A.poses(k, tier, seed)) for k in ("R2", "R3", "SE2", "SE3")},
            "information_matrices": [name for name, _ in A.OMEGA(3, tier, seed)],
            "special_ids": A.IDS_SPECIAL,
            "seed_moves_only_generic_members": True,
        }
    except Exception as ex:  # pragma: no cover
        return {"error": repr(ex)}


def run_check(mod, tier, seed, workers=None, deadline_s=None):
    t0 = time.time()
    pid = mod.ID
    if deadline_s is None:
        deadline_s = float(os.environ.get("VERIF_DEADLINE_S", 0)) or (170.0 if tier == "quick" else 3000.0)
    workers = workers or int(os.environ.get("VERIF_WORKERS", 0)) or min(16, os.cpu_count() or 1)
    chunks = list(mod.chunks(tier, seed))
    total = Acc()
    capped = False
    errors = []
    done = 0
    if workers <= 1 or len(chunks) <= 1:
        for c in chunks:
            st, r = _worker((mod.__name__, c, tier, seed))
            if st == "ok":
                total.merge(r)
                done += 1
            else:
                errors.append(r)
            if time.time() - t0 > deadline_s:
                capped = done < len(chunks)
                break
    else:
        ctx = mp.get_context("fork")
        pool = ctx.Pool(min(workers, len(chunks)))
        try:
            it = pool.imap_unordered(_worker, [(mod.__name__, c, tier, seed) for c in chunks])
            while True:
                left = deadline_s - (time.time() - t0)
                try:
                    st, r = it.next(timeout=max(left, 0.01))
                except StopIteration:
                    break
                except mp.TimeoutError:
                    capped = True
                    break
                if st == "ok":
                    total.merge(r)
                    done += 1
                else:
                    errors.append(r)
        finally:
            pool.terminate()
            pool.join()

    if errors:
        sys.stdout.write("HARNESS-ERROR property=%s %d chunk(s) crashed\n%s\n" % (pid, len(errors), errors[0]))
        sys.stdout.flush()
        return 2

    # vacuity guards
    meta = getattr(mod, "META", {})
    req = meta.get("required_classes", {})
    req = req.get(tier, req.get("all", [])) if isinstance(req, dict) else req
    if not capped and total.n_violations == 0 and not total.known_hits:
        # (when cases fail before they can be classified the violations are what matters, not the vacuity guard)
        missing = [c for c in req if total.classes.get(c, 0) == 0]
        if missing:
            sys.stdout.write("HARNESS-ERROR property=%s vacuous: structure classes never exercised: %s\n" % (pid, missing))
            return 2

    # failures: re-evaluate from scratch in this process, match against known findings
    known = load_known()
    reported = 0
    new_viol = 0
    known_hits = {}
    seen = set()
    flaky = 0
    kb = {k.get("id"): k for k in known}
    for kid, n in total.known_hits.items():
        ex = total.known_examples.get(kid)
        try:
            still = mod.eval_case(ex["case"]) if ex else ["?"]
        except Exception:
            still = ["exception during re-evaluation"]
        if not still:
            flaky += 1
            sys.stdout.write("HARNESS-ERROR property=%s known-finding case %s not reproducible on re-evaluation\n" % (pid, kid))
        known_hits[kid] = [kb[kid], n]
    for v in total.violations:
        h = case_hash(v["case"])
        if h in seen:
            continue
        seen.add(h)
        try:
            msgs2 = mod.eval_case(v["case"])
        except Exception:
            msgs2 = ["exception during re-evaluation: " + traceback.format_exc()]
        if not msgs2:
            flaky += 1
            sys.stdout.write("HARNESS-ERROR property=%s case %s failed in worker but not on re-evaluation: %s\n" % (pid, h, v["msgs"][:1]))
            continue
        sigf = getattr(mod, "signature", None)
        sig = sigf(v["case"], msgs2) if sigf else {}
        k = match_known(pid, sig, known)
        if k is not None:
            known_hits.setdefault(k["id"], [k, 0])[1] += 1
            continue
        new_viol += 1
        if reported < MAX_VIOL_REPORTED:
            os.makedirs(os.path.join(REPLAY_DIR, pid), exist_ok=True)
            path = os.path.join(REPLAY_DIR, pid, h + ".json")
            with open(path, "w") as f:
                f.write(jdump({"property": pid, "tier": tier, "seed": seed, "case": v["case"], "msgs": msgs2[:6], "signature": sig}, indent=1))
            sys.stdout.write("VIOLATION property=%s replay=%s\n" % (pid, path))
            sys.stdout.write("  -> %s\n" % (msgs2[0][:400],))
            reported += 1
    for kid, (k, n) in sorted(known_hits.items()):
        sys.stdout.write("KNOWN-FINDING: property=%s %s [%s; %d matching case(s) this run]\n" % (pid, k.get("description", ""), kid, n))

    wall = time.time() - t0
    cov = {
        "states": int(total.states or total.evals),
        "transitions": int(total.transitions or total.evals),
        "traces_validated_against_impl": int(total.traces),
        "samples": total.samples[:5] or [{"note": "no sample recorded"}],
        "evaluations": int(total.evals),
        "distinct_nontrivial": int(total.nontrivial),
        "rule": meta.get("rule", ""),
        "exhaustive": (not capped),
        "capped": capped,
        "chunks_total": len(chunks),
        "chunks_completed": done,
        "structure_classes": dict(sorted(total.classes.items())),
        "distinct_outcomes": dict(sorted(total.outcomes.items())[:60]),
        "n_distinct_outcomes": len(total.outcomes),
        "excluded_by_stated_rule": total.excluded,
        "max_err_ratio": (total.max_ratio if math.isfinite(total.max_ratio) else 1e308),
        "max_err_ratio_case": total.max_ratio_case,
        "bounds": (meta.get("bounds", {}) or {}).get(tier, meta.get("bounds", {})),
        "alphabet": meta.get("alphabet") or _alphabet_summary(tier, seed),
        "known_findings_matched": {kid: n for kid, (k, n) in known_hits.items()},
        "workers": workers,
        "cpu_s": round(float(total.extra.pop("_cpu_s", 0.0)), 2),
    }
    for k, v in total.extra.items():
        cov[k] = v
    ev = {
        "property_id": pid,
        "tier": tier,
        "seed": int(seed),
        "level": "model_checking",
        "coverage": cov,
        "assumptions": meta.get("assumptions", []),
        "wall_s": round(wall, 3),
        "violations": int(new_viol),
    }
    os.makedirs(EVIDENCE_DIR, exist_ok=True)
    tmp = os.path.join(EVIDENCE_DIR, pid + ".json.tmp")
    with open(tmp, "w") as f:
        f.write(jdump(ev, indent=1))
        f.write("\n")
    os.replace(tmp, os.path.join(EVIDENCE_DIR, pid + ".json"))

    sys.stdout.write(
        "%s %s seed=%d: cases=%d nontrivial=%d states=%d transitions=%d traces=%d outcomes=%d max_err_ratio=%.3g violations=%d known=%d%s wall=%.1fs\n"
        % (pid, tier, seed, total.evals, total.nontrivial, cov["states"], cov["transitions"], total.traces, len(total.outcomes), total.max_ratio, new_viol, sum(n for _, n in known_hits.values()), " CAPPED" if capped else "", wall)
    )
    sys.stdout.flush()
    if flaky:
        return 2
    return 1 if new_viol else 0


def replay(mod, path):
    with open(path) as f:
        d = json.load(f)
    msgs = mod.eval_case(d["case"])
    if msgs:
        sys.stdout.write("VIOLATION property=%s replay=%s\n" % (mod.ID, path))
        for m in msgs[:10]:
            sys.stdout.write("  -> %s\n" % m[:600])
        return 1
    sys.stdout.write("replay %s: property %s holds on this case\n" % (path, mod.ID))
    return 0
