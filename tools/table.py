"""Per-property manifest texts.  built=False -> listed under not_applicable until the check exists."""
T = []


def add(id, built, engine, technique, text, note, ref):
    T.append(dict(id=id, built=built, engine=engine, technique=technique, text=text, note=note, design_ref=ref))


add("C01", True, "E1-enumerator", "exhaustive small-scope enumeration of (pose, pose, measurement[, offset]) alphabets; oracle = 5-point central difference of the edge's own error through the implementation's boxplus",
    "Every odometry/landmark edge configuration over the finite pose alphabets (all sign orthants, w<0, w=0, Hurwitz units, +-pi seam, rotated offsets, large translations) is evaluated; each analytic Jacobian column is compared with a 5-point derivative at 1e-9 relative tolerance. Each configuration is also re-judged after an in-place edit of a vertex pose (history of length 2), with the vertices marked fixed, and R^n edges against their exact constant derivative. Bounded exhaustive: holds for every combination of the alphabet, no claim for other reals.",
    "alphabet members only; derivative oracle trusts the implementation's calc_error and boxplus (C02/C09 own those); SE(2) wrap set excluded as the property states", "DESIGN.md 4 C01")
add("C02", True, "E1-enumerator", "exhaustive enumeration of edge/graph configurations vs an independent homogeneous-matrix / Hamilton-product reference model (float and exact Fraction tiers)",
    "All single-edge configurations over the pose alphabets x information alphabet and all small edge multisets are compared with the reference error / chi2; consistency (chi2 = 0 iff measurement agrees, tiny disagreements survive), non-negativity, linearity in Omega, independence from fixed flags, edges pre-bound to stale vertices, measurement/offset replaced on the same edge object and a single q ~ -q sign convention are checked on every member.",
    "reference model vf/ref/geom.py + vf/ref/edges.py trusted; SE(3) rotational error accepted up to one global sign per evaluation", "DESIGN.md 4 C02")
add("C03", True, "E1-enumerator", "exhaustive enumeration of small graph shapes (types x edge multisets x fixed subsets x list orders x ids) vs dense reduced Gauss-Newton reference step",
    "Every well-posed configuration of the bounded graph-shape family (all fixed subsets x fix_first_pose x vertex/edge list orders x id maps, weak information, steps of 1e7, shared pose objects, fixed set changed between iterations) is optimised for one iteration and compared with pose [+] dx_ref from an independently assembled dense reduced system.",
    "edge errors/Jacobians taken from the edges themselves (C01/C02 own them); numpy dense solve trusted on <=40x40 well-conditioned systems", "DESIGN.md 4 C03")
add("C04", True, "E1-enumerator", "exhaustive enumeration of all connected multigraphs on <=4(5) labelled R^n vertices x fixed subsets x initial guesses x information, vs closed-form weighted least squares",
    "Every linear graph of the bounded family is optimised and compared with the closed-form WLS minimiser and its chi2 (also as the second run on the same Graph object after releasing a vertex, with fix_first_pose, from 1e6 away, with 1e-10-scale information); structured families up to 30 vertices are added.",
    "numpy lstsq/Cholesky trusted for the reference; exhaustive up to 4 (quick) / 5 (thorough) vertices, structured above", "DESIGN.md 4 C04")
add("C05", True, "E1-enumerator", "exhaustive enumeration of a finite family (graph family x size x perturbation pattern x noise pattern x radius x tol) inside calibrated radii; oracle = chi2 monotone, independent Newton decrement, ground truth recovery",
    "Every combination of the stated finite family (plus histories: earlier coarser run, re-anchoring, landmark entered twice with a shared seed object; information scales 1, 1e-6, 1e-10) is optimised; the returned state must not increase chi2, must be stationary by an independently computed Newton decrement, and must reproduce ground truth when noise-free.",
    "claim limited to the calibrated neighbourhood and the listed families; reference error model + 5-point Jacobians trusted", "DESIGN.md 4 C05")
add("C06", True, "E1-enumerator + fault enumeration", "exhaustive enumeration of graph shapes x fixed subsets (incl. isolated/all/landmark fixed) x deviation-bounded solver faults (0,1,2 injected answers) x iteration counts",
    "Fixed vertices are compared bitwise before/after optimize in every outcome (normal, singular, diverged, solver fault, exception); free vertices are compared with the reduced reference problem (analytic and numerical-Jacobian twin edges); vertices sharing one pose object and 2-3 call histories with changing fixed sets are compared with fresh twins.",
    "solver seam = module global graphslam.graph.spsolve (fault layer switches itself off and says so if the name disappears)", "DESIGN.md 4 C06")
add("C07", True, "E2-explorer", "explicit-state exploration of the (Gauss-Newton step, left-transform) state graph: commuting squares checked at every reachable state up to depth 5",
    "For every graph of the family and every transform of the alphabet (incl. frames 1e6 away), errors/chi2 invariance and GN-step/transform commutation are checked at each state of the 5-step trajectory, also when an already evaluated graph is re-framed in place, plus full optimize() runs on convergent families.",
    "finite transform alphabet (incl. 180 deg, w<0, large translations); tolerance 1e-9 scaled", "DESIGN.md 4 C07")
add("C08", True, "E2-explorer", "explicit-state exploration of representation transitions (all vertex/edge permutations, id relabelings, 2 pi k shifts, all quaternion sign patterns, edge splitting, information scaling) as commuting squares with the optimizer step",
    "Every representation change of the bounded family is applied at every state of the trajectory; chi2 and the GN step must commute with it; relabelings also under fix_first_pose and through the .g2o loader; vertex objects reused in a second permuted graph; full optimize() runs on convergent families.",
    "finite graph family; cross-term and block-diagonal information both used", "DESIGN.md 4 C08")
add("C09", True, "E1-enumerator", "exhaustive enumeration of pose alphabets (pairs, triples, points, increments) vs homogeneous-matrix / Hamilton-sandwich reference; exact rational tier on Hurwitz x dyadic members",
    "All group laws (matrix homomorphism, (-) definition, two-sided inverse/identity, associativity, point action, boxplus = compose with Exp) are checked on every pair/triple of the finite alphabets, physically (q~-q) at 1e-9, and exactly on the Hurwitz tier.",
    "alphabet members only (no claim for other reals); reference model and CPython float/Fraction trusted", "DESIGN.md 4 C09")
add("C10", True, "E1-enumerator", "exhaustive enumeration 12 methods x 4 pose types x operand alphabets; oracle = documented shape + 5-point derivative along every tangent direction through the implementation's boxplus",
    "Every public pose Jacobian method is evaluated on every operand pair of the alphabets; shape, tangent derivative and compact-row consistency are checked.",
    "radial (off-sphere) derivative of 7-column SE(3) Jacobians deliberately not judged", "DESIGN.md 4 C10")
add("C11", True, "E2-explorer", "explicit-state exploration of all operation words up to depth 4/5 over a 22-operation alphabet + periodic chains to 1e4 operations; dense angle alphabet for the wrap; optimizer histories",
    "Invariants (angle range and congruence; unit norm up to k*eps) are evaluated on every node of the full operation tree and every step of the periodic chains.",
    "exhaustive in the generating word, not over all 1e4-long words", "DESIGN.md 4 C11")
add("C12", True, "E3-tlc-conformance + E2", "TLC explicit-state model of the stopping rule with every behaviour replayed against Graph.optimize through a scripted edge; exhaustive call-splitting (all compositions of n<=6) and direct enumeration over graphs x tol x max_iter x verbose",
    "TLC checks the documented rule on every reachable state of the loop model; every maximal path of the dumped state graph is replayed on the real optimizer and compared field by field; split runs, verbose and report fields are enumerated on real graphs.",
    "TLC 1.8.0 trusted; eps in the denominator and NaN chi2 are outside the TLA+ model and covered by the direct enumeration", "DESIGN.md 4 C12, Appendix A")
add("C13", True, "E1-enumerator + E2 cycles", "exhaustive enumeration of small graphs over per-slot value alphabets (extreme doubles, w<0, rotated offsets, non-diagonal information, id alphabets) through real temp files, 1..5 export/import cycles",
    "Every graph of the bounded family is written and re-read; every field compared bitwise (4 ulp on wrapped angles / renormalised quaternions), tokens re-parsed independently; inexpressible content must raise.",
    "filesystem + CPython float repr/parse trusted", "DESIGN.md 4 C13")
add("C14", True, "E1-enumerator", "exhaustive enumeration of legal line orders, junk placements (0,1,2 insertions), number formats, separators and line endings vs an independent tokenizer reference; all six loader entry points",
    "Every generated file is loaded by the real readers and compared structurally with the reference parse; warnings counted per unsupported line.",
    "reference tokenizer vf/ref/g2o.py trusted", "DESIGN.md 4 C14")
add("C15", True, "E2-explorer", "explicit-state BFS to fixpoint over the query alphabet (~30 queries) from several base states; state = bitwise digest of every reachable array/flag/id/list order",
    "BFS closes (fixpoint) so all interleavings of any length are covered; observable snapshot must be unchanged by every query and each query's value must be path-independent; optimize may change only free poses (+ first fixed flag).",
    "generic __dict__ walker defines 'all numeric state'", "DESIGN.md 4 C15")
add("C16", True, "E1-enumerator", "exhaustive enumeration programs (14 custom error functions) x pose alphabets for the numerical Jacobian, and graph families for optimum equality with 5-point-Jacobian twins",
    "Each numeric Jacobian is compared with a 5-point derivative at forward-difference accuracy; every graph of the family is optimised with numeric and with exact Jacobians and the optima compared.",
    "finite program family and alphabets; inside C05 radii", "DESIGN.md 4 C16")
add("C17", True, "E1-enumerator", "exhaustive enumeration of all ordered pairs of an object pool x tolerances, all single-component perturbation magnitudes 1e-12..1e3 x tol, all discrete differences",
    "equals must never raise, be True for copies/sub-tolerance, False for discrete or super-tolerance differences, symmetric outside the band.",
    "pool of well-formed objects as stated", "DESIGN.md 4 C17")
add("C18", True, "E1-enumerator", "complete enumeration of the product named by the property (edge kind x vertex count x endpoint pose types x measurement type x offset type x information shape x id present/absent x list order) vs documentation truth table",
    "The whole stated space (296k constructions) is enumerated through the real Graph constructor; acceptance must equal the truth table and accepted edges must be bound to the named vertex objects.",
    "python not run with -O; landmark offset None not judged", "DESIGN.md 4 C18")

# sentences added after the fourth and fifth mutation waves (what the alphabets / histories contain beyond the text above)
EXTRA = {
    "C01": "Landmarks exactly at the sensor position, pure-yaw SE(3) poses, Jacobians unchanged under partial / tiny / integer information and under fixed flags, returned matrices held while other edges are evaluated.",
    "C02": "Integer, float32, indefinite and negative-definite information; measurements / offsets that are instances of a pose subclass; graph sums over 1..256 edges and over edges with non-positive information; two landmarks seen from one pose through different offsets.",
    "C03": "Graphs of 4..33 poses in several topologies (star, two anchored components, hub, long chains), positional optimize() calls, and k in {2,3,5,8} iterations inside ONE call against k reference steps.",
    "C04": "Exact duplicate edges, a shared initial-guess array, information scales 1e11 apart between edges, an earlier run with fix_first_pose=True on a caller-fixed first vertex.",
    "C05": "Further variants: a second sensor offset per landmark, a displaced second component anchored by the caller, a vertex list starting with a landmark, information matrices replaced between two runs.",
    "C06": "Fixed SE(3) vertices with slightly non-unit quaternions are included (fixed-pose and flag oracles).",
    "C07": "Graphs with zero landmarks, shared measurement objects, landmarks 300-600 units away and landmark observations that agree bit for bit with the initial guess are included.",
    "C08": "Edge splitting, quaternion negation and whole-turn shifts are also applied through the .g2o loader.",
    "C09": "200-step chains (x (+) b, b (+) x, x [+] delta) are followed against the reference at every step; float32 / float16 / integer operand and increment arrays; results held while other operations run; identity() independence.",
    "C10": "Axis-aligned operands, pure-yaw SE(3) poses, keyword calls with the documented parameter names, returned matrices held while the methods run for other poses.",
    "C11": "The alphabet has 25 operations incl. the in-place spellings; every dense angle is also loaded through a VERTEX_SE2 line; one optimize(tol=0, max_iter=k) call for every k in 1..50; inverse evaluated before an in-place normalise / rewrite.",
    "C13": "Also: an unrelated file with the same parameter ids imported between import and comparison, graphs without parameters written over an existing file, the same id for a 2-D and a 3-D parameter, unregistered SE(3) offsets (must be refused or reproduced).",
    "C14": "Junk lines that quote complete vocabulary lines, a registered custom type that needs the file's offset parameters, digit-group underscores, every zero / non-zero pattern of the information entries, exact duplicate lines.",
    "C15": "Query alphabet also holds returned values while the same queries run for other edges / poses, writes into to_array / to_compact results and into the results of operators with a neutral operand.",
    "C16": "Numerical Jacobians are held while another edge of the same type is differentiated, requested again after the edge was linearised and a vertex moved; optimised graphs also contain heavy 3-vertex constraints.",
    "C17": "The pool contains a 9-pose trajectory with one pose near the origin and the others kilometres away, ids of 2e5 / 5e6 / 2^40 differing by 1, array vs pose estimates with equal numbers.",
    "C18": "The product is repeated with all endpoints fixed, ids as tuple / numpy integers, all-zero / all-ones information; plus every vertex-list order of 3..5-vertex graphs, two edges naming the same vertices, every line order of a 5-line .g2o file with and without an unknown id.",
}
EXTRA6 = "After the sixth wave every case also carries the process history it needs (an earlier identity-offset edge, earlier junk lines, an earlier rejected graph), and standard-library copies (copy / deepcopy / pickle) of poses, edges and graphs are used like the originals where the property is about them."
for _k in ("C01", "C06", "C10", "C14", "C18"):
    EXTRA[_k] = EXTRA[_k] + " " + EXTRA6
EXTRA["C12"] = "Scripted chi2 sequences far outside the model's value alphabet (growth by 1e7 per iteration, collapse, 1e12 plateaus) are replayed against the documented rule for tol x max_iter x verbose; graphs with an edge subclass overriding calc_chi2 are included."
EXTRA7 = {
    "C03": "One edge object listed twice is a parallel edge.",
    "C05": "Further variants: zero-lever-arm rotated offsets, a fixed landmark in the middle of the vertex list, information symmetric only up to round-off.",
    "C06": "A unary user edge that works in place on pose.position is attached to every fixed vertex.",
    "C09": "Sub-nanometre increments are compared at 1e-13 x scale; results of operations with a neutral operand must not alias the other operand.",
    "C10": "The documented return type np.ndarray is required.",
    "C11": "Heading increments of 5e-13 and matrix angles where inverse-trigonometric shortcuts are ill-conditioned are included.",
    "C13": "Graphs exported as exactly 1 line and as 1000 / 1001 / 1002 lines; every case starts with an older unrelated export already at the path.",
    "C14": "A custom tag met while no custom type is registered for this call (an earlier call registered one), a comment line through each loader entry point.",
    "C15": "Writes into .position and identity() results are query operations.",
}
for _k, _v in EXTRA7.items():
    EXTRA[_k] = EXTRA.get(_k, "") + " " + _v
for _t in T:
    if _t["id"] in EXTRA:
        _t["text"] = _t["text"] + " " + EXTRA[_t["id"]]
