#!/usr/bin/env python3
"""Prepare a mutation wave: one scratch worktree of /repo per property under <dir> and one prompt file per property.

  tools/wave_prompts.py <dir> <round-name> [ids...]

The prompt contains ONLY the property text, the one-line summaries of changes produced in earlier rounds (so that a new
round goes elsewhere) and generic directions; nothing about /verif's checks.  Worktrees are removed afterwards with
`git -C /repo worktree remove --force <dir>/<id>; git -C /repo worktree prune`.
"""
import glob
import json
import os
import subprocess
import sys

TMPL = '''You are helping to evaluate a verification harness for the open-source Python library python-graphslam (a pure-Python Gauss-Newton pose-graph SLAM optimizer over R2/R3/SE(2)/SE(3) with analytic Jacobians and .g2o import/export). You have your own scratch git worktree of the library at {wt} (work ONLY inside that directory; never touch /repo or /verif, and do not read anything under /verif).

Here is one semantic property the library is supposed to satisfy:

  Title: {title}
  Statement: {statement}
  Quantified over: {quant}

Your task: produce THREE different, realistic code changes ("mutants") to the library source under {wt}/graphslam, each of which
  (1) breaks the property above,
  (2) still imports/compiles, and
  (3) still passes the library's whole existing test-suite unchanged (run it: `cd {wt} && /venv/bin/python -m pytest -q -p no:cacheprovider -x -n 8 tests` -- /venv has the library installed in editable mode pointing at /repo, so run pytest from inside {wt} so that `graphslam` resolves to your worktree; verify with `cd {wt} && /venv/bin/python -c "import graphslam; print(graphslam.__file__)"` that it prints a path under {wt}; if not, use `PYTHONPATH={wt}`).

This is the {round} round; the following ideas were already produced in earlier rounds, so do NOT repeat them or close variants of them (same code site + same trigger, or same trick at a neighbouring site). Read the list carefully and then deliberately go somewhere else:
{prev}

Look for places earlier rounds did not reach. {ideas} Choose what fits this property. The change must look like a plausible refactoring slip, micro-optimisation, defensive check or copy-paste error. Make the three mutants differ in mechanism and location.

For each mutant k in 1..3 create the directory {wt}/mutants/m<k>/ containing:
  - patch.diff : `git diff` of the change relative to the worktree HEAD (apply with `git apply`); exactly one mutant per patch, touching only files under graphslam/
  - demo.py    : a small standalone program (run as `PYTHONPATH={wt} /venv/bin/python demo.py`) that exits with status 1 and prints what went wrong when the mutant is applied, and exits 0 on the unmodified code. It must demonstrate the violation of the property through the library's public behaviour, using only inputs that are legal for the library and inside the property's stated quantification.
  - meta.json  : {{"property": "{pid}", "summary": "...one sentence...", "needs": "...what specific input/sequence/configuration it needs in order to manifest...", "tests_pass": true, "files": ["graphslam/..."]}}

Procedure for each mutant: edit the source, run the full test-suite (must be all passed), run demo.py (must fail), save `git diff > mutants/m<k>/patch.diff`, then `git checkout -- graphslam` to restore, run demo.py again (must pass). Leave the worktree clean (only the untracked mutants/ directory) when you finish. Do not commit. Report back a short list: for each mutant, its summary, and confirmation of the three runs (tests pass with mutant, demo fails with mutant, demo passes without).'''

IDEAS = {
    "SEVENTH": "Ideas: combine a RARE PRECONDITION with a QUIET EFFECT - the result is still plausible, finite and self-consistent, only different from the definition in the property by a small or structured amount (a factor close to 1, one component of many, one vertex of many, only the last iteration, only the second call, only every other edge). Look at: evaluation-ORDER dependence (the result depends on which of two independent calls came first, on dictionary / set iteration order, on the order in which edges mention a vertex, on whether a property was read before it was written); result TYPES, dtypes, shapes and memory layout as part of the contract (a float where an array is documented, a view where a copy is documented, a 1 x n matrix for an n-vector, float32 somewhere inside, a read-only result); ARGUMENT VALIDATION that became too strict or too lax (legal inputs rejected or silently coerced: negative ids, ids given as strings of digits, zero-length lists, a graph without edges or without vertices, one-vertex graphs, an edge listed twice as the same object, the same vertex object listed twice); DEFAULTS (a default argument value changed or evaluated once at import time; class attributes used as per-instance defaults; module constants imported by value into another module and then changed); what happens at the documented LIMITS of each argument (tol = 0, tol >= 1, max_iter = 0 / 1 / very large, perturbations of exactly the tolerance, exactly representable boundaries); and INTERACTIONS between two public features that are each tested alone (custom edge types together with fixed vertices and .g2o export; landmark offsets together with relabelled ids; equals() on graphs that were loaded, optimized and exported; numerical Jacobians on edges whose vertices are shared with analytic edges).",
    "SIXTH": "Ideas: a slip applied CONSISTENTLY at two or more sites, so that the library's functions still agree with each other (e.g. error and Jacobian changed together, export and import changed together, an operation and its inverse changed together) while the result no longer matches the mathematical definition in the property; branches on THRESHOLDS that ordinary values never cross (a norm below 1e-3 or above 1e3, more than 50 vertices, chi2 above 1e6 or below 1e-20, an angle within 1e-4 of pi/2, information entries above 1e8, ids above 2^31 or 2^53); dependence on what happened EARLIER in the process (number of Graph objects created so far, a class attribute set by the first instance, import order, a warning that is only emitted once, state left behind by an exception that the caller caught); standard-library COPYING and SERIALISATION of the library's objects (copy.copy / copy.deepcopy / pickle of poses, vertices, edges, graphs, results - the copies are then used like the originals); the Python numeric tower at the API boundary (bool, int, Fraction, Decimal, numpy float32/longdouble scalars, strings of digits where a number is expected, 0-d arrays) and containers (dict views, generators, numpy object arrays); sub-classing hooks that users rely on (a subclass overriding calc_error / is_valid / to_g2o / from_g2o, or a pose subclass with extra attributes that must survive operations); what is REPORTED rather than computed (fields of the optimization result, the order and count of iteration records, logging / printed table contents, return values of methods that are normally called for their side effect); and partial failure (an exception in the middle of optimize / from_g2o / to_g2o: what state are the caller's objects and files left in).",
    "FIFTH": "Ideas: conditions that hold only in rare-but-legal GEOMETRIC configurations (collinear or coincident vertices, a landmark exactly at the sensor position, zero-length odometry, rotations of exactly 90/120/180 degrees about a coordinate axis or the diagonal, quaternions with one or two zero components, angles that are exact multiples of pi/2, negative zero -0.0, components that are exactly equal to each other, measurements exactly equal to the prediction so that the error is exactly zero); the KIND of container or element handed to the public API (tuples or generators instead of lists, numpy integer ids, numpy bool flags, 0-d arrays, user subclasses of the pose / vertex / edge classes, keyword versus positional arguments, read-only arrays); rarely used ENTRY POINTS and PARAMETER VALUES (verbose=True, max_iter=0 or 1, tol=0 or a huge tol, fix_first_pose on a graph whose first vertex is a landmark, the helpers in load.py, plotting helpers, calc_chi2_gradient_hessian of a single edge, to_g2o of a single vertex/edge); SEQUENCES that mix features (load -> edit -> optimize -> export -> load; two graphs alive at once that share vertex or edge objects; optimizing, adding information, optimizing again; copying poses between graphs); moderately LARGE sizes (50+ vertices, 100+ edges, ids that are not 0..N-1) where an index, a sort, a dictionary key or a sparse-matrix assembly step matters; and ACCUMULATION effects (something that is right once and drifts when repeated 10..1000 times).",
}


def main():
    root, rnd = sys.argv[1], sys.argv[2]
    only = set(sys.argv[3:])
    props = {}
    for l in open("/verif/properties.jsonl"):
        p = json.loads(l)
        props[p["id"]] = p
    prev = {}
    for f in sorted(glob.glob("/verif/seeded/*/meta.json")):
        m = json.load(open(f))
        prev.setdefault(m["property"], []).append(m.get("summary", ""))
    os.makedirs(root, exist_ok=True)
    for pid, p in props.items():
        if only and pid not in only:
            continue
        wt = os.path.join(root, pid)
        if not os.path.exists(wt):
            subprocess.check_call(["git", "-C", "/repo", "worktree", "add", "-q", "--detach", wt, "HEAD"])
        pv = "\n".join("  - " + s[:260] for s in prev.get(pid, [])) or "  (none recorded)"
        open(os.path.join(root, "prompt_%s.txt" % pid), "w").write(
            TMPL.format(wt=wt, title=p["title"], statement=p["statement"], quant=p["quantifier"]["text"], prev=pv, pid=pid, round=rnd, ideas=IDEAS[rnd])
        )
    print("prepared", root)


if __name__ == "__main__":
    main()
