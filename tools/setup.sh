#!/bin/sh
# Offline setup: nothing to build (pure Python run by /venv/bin/python against /repo's working tree).
# Verifies the interpreter, the imports and (if present) the TLC launcher.
cd "$(dirname "$0")/.." || exit 1
chmod +x vcheck 2>/dev/null
mkdir -p evidence replays
/venv/bin/python -c "import numpy, scipy, graphslam; print('python ok; graphslam from', graphslam.__file__)" || exit 1
if command -v tlc >/dev/null 2>&1; then echo "tlc present"; else echo "tlc absent (C12 falls back to the transcribed transition relation)"; fi
exit 0
