#!/usr/bin/env python3
"""Validate MANIFEST.json and evidence/*.json against the schemas (run with python3-vt, which has jsonschema)."""
import glob, json, sys
import jsonschema
ok = True
m = json.load(open("/verif/MANIFEST.json"))
jsonschema.validate(m, json.load(open("/root/.vp/MANIFEST.schema.json")))
es = json.load(open("/root/.vp/EVIDENCE.schema.json"))
for f in sorted(glob.glob("/verif/evidence/*.json")):
    try:
        jsonschema.validate(json.load(open(f)), es)
    except Exception as e:
        ok = False
        print("INVALID", f, str(e)[:300])
print("manifest ok; evidence", "ok" if ok else "INVALID")
sys.exit(0 if ok else 1)
