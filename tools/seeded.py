#!/usr/bin/env python3
"""Seeded-change bookkeeping.

  tools/seeded.py ingest <dir-with-mutants> <PROP> [<PROP2> ...]   validate each mutants/m*/ (patch applies, pinned suite passes, demo fails with /
                                                              passes without), run the given checks against it, store under /verif/seeded/<id>/
  tools/seeded.py run [<id> ...] [--checks C01,C02] [--tier quick]   re-run checks against stored seeded changes (scratch copy; never touches /repo)
  tools/seeded.py table                                        print the detection matrix from seeded/*/meta.json

A scratch copy of /repo's HEAD tree is made under /var/tmp and removed afterwards.
"""
import glob
import json
import os
import shutil
import subprocess
import sys
import tempfile

VERIF = "/verif"
SEEDED = os.path.join(VERIF, "seeded")
PY = "/venv/bin/python"


def sh(cmd, cwd=None, env=None, timeout=3600):
    p = subprocess.run(cmd, shell=True, cwd=cwd, env=env, stdout=subprocess.PIPE, stderr=subprocess.STDOUT, text=True, timeout=timeout)
    return p.returncode, p.stdout


def scratch_copy():
    d = tempfile.mkdtemp(prefix="seedchk.", dir="/var/tmp")
    rc, out = sh("git -C /repo archive HEAD | tar -x -C %s" % d)
    assert rc == 0, out
    sh("git init -q . && git add -A && git -c user.email=a@b -c user.name=x commit -q -m base", cwd=d)
    return d


def run_checks(scratch, checks, tier="quick"):
    res = {}
    env = dict(os.environ, VERIF_REPO=scratch)
    for c in checks:
        rc, out = sh("./vcheck %s %s" % (c, tier), cwd=VERIF, env=env, timeout=7200)
        viol = [l for l in out.splitlines() if l.startswith("VIOLATION")]
        first = ""
        for i, l in enumerate(out.splitlines()):
            if l.startswith("VIOLATION") and i + 1 < len(out.splitlines()):
                first = out.splitlines()[i + 1].strip()[:300]
                break
        res[c] = {"exit": rc, "violations_reported": len(viol), "first": first, "harness_error": "HARNESS-ERROR" in out}
        shutil.rmtree(os.path.join(VERIF, "replays", c), ignore_errors=True)
    # evidence files were rewritten by runs against the mutant: restore the committed ones
    sh("git checkout -- evidence", cwd=VERIF)
    return res


def ingest(src, props):
    os.makedirs(SEEDED, exist_ok=True)
    for md in sorted(glob.glob(os.path.join(src, "mutants", "m*"))):
        patch = os.path.join(md, "patch.diff")
        demo = os.path.join(md, "demo.py")
        if not (os.path.exists(patch) and os.path.exists(demo)):
            print("skip", md, "(incomplete)")
            continue
        try:
            meta = json.load(open(os.path.join(md, "meta.json")))
        except Exception:
            meta = {}
        prop = meta.get("property", props[0])
        n = 1
        while os.path.exists(os.path.join(SEEDED, "%s-%02d" % (prop, n))):
            n += 1
        sid = "%s-%02d" % (prop, n)
        scratch = scratch_copy()
        try:
            env = dict(os.environ, PYTHONPATH=scratch, MPLBACKEND="Agg")
            rc0, out0 = sh("%s %s" % (PY, demo), cwd=scratch, env=env)
            rc, out = sh("git apply --whitespace=nowarn %s" % patch, cwd=scratch)
            if rc != 0:
                print(sid, "PATCH DOES NOT APPLY to current HEAD:", out[:300])
                continue
            rct, outt = sh("%s -m pytest -q -p no:cacheprovider --timeout=900 -n 8 tests" % PY, cwd=scratch, env=env)
            tail = outt.strip().splitlines()[-1] if outt.strip() else ""
            rc1, out1 = sh("%s %s" % (PY, demo), cwd=scratch, env=env)
            ok = rct == 0 and rc1 != 0 and rc0 == 0
            print(sid, "tests:", tail, "| demo without:", rc0, "| demo with:", rc1, "| kept" if ok else "| REJECTED")
            if not ok:
                continue
            res = run_checks(scratch, props)
            dst = os.path.join(SEEDED, sid)
            os.makedirs(dst)
            shutil.copy(patch, os.path.join(dst, "patch.diff"))
            shutil.copy(demo, os.path.join(dst, "demo.py"))
            meta.update(
                {
                    "id": sid,
                    "property": prop,
                    "confirmed": {"pytest": tail, "demo_exit_without_patch": rc0, "demo_exit_with_patch": rc1, "base_commit": sh("git -C /repo rev-parse --short HEAD")[1].strip()},
                    "ran": ["git apply patch.diff on a scratch copy of /repo HEAD", "pytest -q -n 8 tests (all passed)", "demo.py (exit 1 with patch, 0 without)", "VERIF_REPO=<scratch> ./vcheck <ID> quick for " + ",".join(props)],
                    "detected_by": {c: r for c, r in res.items()},
                }
            )
            json.dump(meta, open(os.path.join(dst, "meta.json"), "w"), indent=1)
            for c, r in res.items():
                print("   ", c, "DETECTED" if r["exit"] == 1 else ("HARNESS-ERROR" if r["exit"] == 2 else "missed"), r["first"][:160])
        finally:
            shutil.rmtree(scratch, ignore_errors=True)


def rerun(ids, checks, tier):
    for d in sorted(glob.glob(os.path.join(SEEDED, "*"))):
        sid = os.path.basename(d)
        if ids and sid not in ids:
            continue
        meta = json.load(open(os.path.join(d, "meta.json")))
        cs = checks or [meta["property"]]
        scratch = scratch_copy()
        try:
            rc, out = sh("git apply --whitespace=nowarn %s" % os.path.join(d, "patch.diff"), cwd=scratch)
            if rc != 0:
                print(sid, "patch does not apply:", out[:200])
                continue
            res = run_checks(scratch, cs, tier)
            meta.setdefault("detected_by", {}).update(res)
            json.dump(meta, open(os.path.join(d, "meta.json"), "w"), indent=1)
            print(sid, " ".join("%s=%s" % (c, "DETECTED" if r["exit"] == 1 else ("ERR" if r["exit"] == 2 else "missed")) for c, r in res.items()))
        finally:
            shutil.rmtree(scratch, ignore_errors=True)


def table():
    for d in sorted(glob.glob(os.path.join(SEEDED, "*"))):
        meta = json.load(open(os.path.join(d, "meta.json")))
        det = [c for c, r in meta.get("detected_by", {}).items() if r["exit"] == 1]
        miss = [c for c, r in meta.get("detected_by", {}).items() if r["exit"] != 1]
        print("%-8s %-4s detected by: %-30s missed by: %-20s %s" % (meta["id"], meta["property"], ",".join(det) or "-", ",".join(miss) or "-", meta.get("summary", "")[:110]))


def table_md():
    rows = []
    for d in sorted(glob.glob(os.path.join(SEEDED, "*"))):
        meta = json.load(open(os.path.join(d, "meta.json")))
        det = [c for c, r in sorted(meta.get("detected_by", {}).items()) if r["exit"] == 1]
        miss = [c for c, r in sorted(meta.get("detected_by", {}).items()) if r["exit"] != 1]
        home = meta["property"]
        hm = "yes" if home in det else ("NO" if home in miss else "not run")
        rows.append("| %s | %s | %s | %s | %s | %s |" % (meta["id"], home, hm, ", ".join(det) or "-", ", ".join(miss) or "-", (meta.get("summary", "") or "").replace("|", "/")[:160]))
    print("| id | property | caught by its own check | caught by | run but silent | change |")
    print("|---|---|---|---|---|---|")
    print("\n".join(rows))


if __name__ == "__main__":
    a = sys.argv[1:]
    if a[0] == "ingest":
        ingest(a[1], a[2:])
    elif a[0] == "run":
        ids = [x for x in a[1:] if not x.startswith("--")]
        checks = None
        tier = "quick"
        for k, x in enumerate(a):
            if x == "--checks":
                checks = a[k + 1].split(",")
                ids = [i for i in ids if i != a[k + 1]]
            if x == "--tier":
                tier = a[k + 1]
                ids = [i for i in ids if i != a[k + 1]]
        rerun(ids, checks, tier)
    elif a[0] == "table-md":
        table_md()
    else:
        table()
