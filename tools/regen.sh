#!/bin/sh
cd /verif && /venv/bin/python - <<'PY'
import json,sys
sys.path.insert(0,'/verif/tools')
import table
json.dump([t for t in table.T if t['built']], open('/verif/tools/checks_table.json','w'), indent=1)
json.dump([{"property_id":t['id'],"reason":"check under construction in this session (see DESIGN.md build order); not yet claimed"} for t in table.T if not t['built']], open('/verif/tools/not_applicable.json','w'), indent=1)
PY
/venv/bin/python tools/mkmanifest.py && python3-vt tools/validate.py
