#!/bin/sh
# usage: tools/mutrun.sh <file-rel-to-repo> <sed-expr> <ID>...   -- applies a one-line mutation to a scratch copy and runs checks against it
F="$1"; E="$2"; shift 2
D=/var/tmp/mut.$$
rm -rf $D; mkdir -p $D; cp -r /repo/graphslam $D/
sed -i "$E" "$D/$F"
if diff -q /repo/$F $D/$F >/dev/null; then echo "MUTATION DID NOT APPLY"; rm -rf $D; exit 3; fi
diff /repo/$F $D/$F | head -6
for id in "$@"; do VERIF_REPO=$D /verif/vcheck $id ${TIER:-quick} | grep -E "^(C[0-9]+ |VIOLATION|HARNESS|KNOWN)" | sort | uniq -c | sort -rn | head -4; done
rm -rf $D /verif/replays/*/
