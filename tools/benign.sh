#!/bin/sh
# usage: tools/benign.sh [patch ...]  -- apply each benign refactor to a scratch copy, run the unedited suite and every quick check (all must stay silent)
cd /verif
PATCHES="${@:-benign/*.diff}"
for P in $PATCHES; do
  D=$(mktemp -d /var/tmp/benign.XXXXXX)
  git -C /repo archive HEAD | tar -x -C $D
  if ! (cd $D && git init -q . && git apply --whitespace=nowarn /verif/$P); then echo "$P: DOES NOT APPLY"; rm -rf $D; continue; fi
  T=$(cd $D && PYTHONPATH=$D MPLBACKEND=Agg /venv/bin/python -m pytest -q -p no:cacheprovider --timeout=900 -n 8 tests 2>&1 | tail -1)
  echo "== $P | suite: $T"
  for c in C01 C02 C03 C04 C05 C06 C07 C08 C09 C10 C11 C12 C13 C14 C15 C16 C17 C18; do
    VERIF_REPO=$D ./vcheck $c quick 2>&1 | grep -E "^(VIOLATION|HARNESS|  ->)" | head -3 | cut -c1-300 | sed "s/^/   $c: /"
  done
  rm -rf $D replays/*/
done
git checkout -- evidence
