"""usage: PYTHONPATH=/verif /venv/bin/python tools/viol_summary.py C17 quick  -> histogram of violation signatures (no caps)"""
import collections, importlib, sys, os, warnings
warnings.filterwarnings("ignore")
if os.environ.get("VERIF_REPO"): sys.path.insert(0, os.environ["VERIF_REPO"])
from vf import runner
mod = importlib.import_module("vf.checks." + sys.argv[1].lower())
tier = sys.argv[2] if len(sys.argv) > 2 else "quick"
runner.MAX_VIOL_PER_CHUNK = 10**9
hist = collections.Counter(); ex = {}
for ch in mod.chunks(tier, 0):
    acc = mod.run_chunk(ch, tier, 0)
    for v in acc.violations:
        s = str(sorted(mod.signature(v["case"], v["msgs"]).items())) + " :: " + v["msgs"][0][:90]
        hist[s] += 1; ex.setdefault(s, v)
for s, n in hist.most_common(60): print(n, s)
