#!/usr/bin/env python3
"""Regenerates MANIFEST.json from the table below (kept in one place so that the manifest is always valid)."""
import importlib.util
import json
import os
import subprocess
import sys

HERE = os.path.dirname(os.path.dirname(os.path.abspath(__file__)))

CHECKS = json.load(open(os.path.join(HERE, "tools", "checks_table.json")))

manifest = {
    "version": 1,
    "setup_cmd": "sh tools/setup.sh",
    "hooks": {
        "guard": "GRAPHSLAM_VERIF",
        "enable": "no source hooks are needed: every observation point is reachable through the public API (plus the private attributes the test-suite itself uses); checks import /repo's working tree directly (editable install in /venv)",
        "baseline_off_cmd": "cd /repo && /venv/bin/python -m pytest -ra -q -p no:cacheprovider --timeout=900 --continue-on-collection-errors",
        "source_commits": [],
        "add_only": True,
    },
    "engines": [
        {"name": "E1-enumerator", "path": "vf/runner.py", "serves_properties": [c["id"] for c in CHECKS if "E1" in c["engine"]], "kind_free_text": "stateless exhaustive enumeration of finite input/configuration products on the real code vs independent reference models, 16-way partitioned"},
        {"name": "E2-explorer", "path": "vf/explore.py", "serves_properties": [c["id"] for c in CHECKS if "E2" in c["engine"]], "kind_free_text": "explicit-state BFS over real objects (state = replayable operation history, canonical bitwise digest), invariants on every state and transition"},
        {"name": "E3-tlc-conformance", "path": "vf/tla/OptimizeLoop.tla", "serves_properties": [c["id"] for c in CHECKS if "E3" in c["engine"]], "kind_free_text": "TLC explicit-state model of the optimizer stopping rule; every behaviour of the dumped state graph replayed against Graph.optimize"},
    ],
    "checks": [],
    "notes": "All checks: ./vcheck <ID> quick|thorough ; replay: ./vcheck <ID> --replay <file>. VERIF_SEED moves only the generic alphabet members. See DESIGN.md.",
    "not_applicable": json.load(open(os.path.join(HERE, "tools", "not_applicable.json"))),
}
for c in CHECKS:
    manifest["checks"].append(
        {
            "property_id": c["id"],
            "quick_cmd": "./vcheck %s quick" % c["id"],
            "thorough_cmd": "./vcheck %s thorough" % c["id"],
            "evidence_file": "/verif/evidence/%s.json" % c["id"],
            "replay_cmd_template": "./vcheck %s --replay {path}" % c["id"],
            "engine": c["engine"],
            "level_claimed": {"category": "model_checking", "text": c["text"], "design_ref": c["design_ref"]},
            "level_note": c["note"],
            "technique": c["technique"],
        }
    )
with open(os.path.join(HERE, "MANIFEST.json"), "w") as f:
    json.dump(manifest, f, indent=1)
    f.write("\n")
print("MANIFEST.json written with %d checks, %d not_applicable" % (len(manifest["checks"]), len(manifest["not_applicable"])))
